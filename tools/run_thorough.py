#!/usr/bin/env python3
"""Runs the thorough tier of every claimed property (or the given ones) one after the other and records the
summary lines in thorough/RESULTS.json and thorough/RESULTS.md.  usage: tools/run_thorough.py [--seed N] [id ...]"""
import json, os, re, subprocess, sys, time
here = os.path.dirname(os.path.dirname(os.path.abspath(__file__)))
args = sys.argv[1:]
seed = None
if args[:1] == ['--seed']:
    seed, args = args[1], args[2:]
man = json.load(open(os.path.join(here, 'MANIFEST.json')))
ids = args or [p['property_id'] for p in man['checks']]
os.makedirs(os.path.join(here, 'thorough'), exist_ok=True)
out = os.path.join(here, 'thorough', 'RESULTS.json')
res = json.load(open(out)) if os.path.exists(out) else {}
env = dict(os.environ)
if seed is not None:
    env['VERIF_SEED'] = seed
for i in ids:
    t0 = time.time()
    try:
        r = subprocess.run([os.path.join(here, 'check'), i, '--tier', 'thorough'], stdout=subprocess.PIPE, stderr=subprocess.STDOUT, text=True, timeout=7200, env=env)
        text, rc = r.stdout, r.returncode
    except subprocess.TimeoutExpired as e:
        text, rc = (e.stdout or ''), 99
    summary = [l for l in text.splitlines() if re.match(r'^C\d\d thorough:', l)]
    lines = [l[:400] for l in text.splitlines() if l.startswith(('VIOLATION', 'KNOWN-FINDING', 'violation: ', 'INFRA', 'infra'))][:20]
    res[i] = dict(exit=rc, wall_s=round(time.time() - t0, 1), summary=summary[-1] if summary else '', lines=lines, seed=seed or os.environ.get('VERIF_SEED', 'default'))
    print(i, rc, round(time.time() - t0, 1), res[i]['summary'], flush=True)
    for l in lines:
        print('   ', l, flush=True)
    json.dump(res, open(out, 'w'), indent=1)
with open(os.path.join(here, 'thorough', 'RESULTS.md'), 'w') as f:
    f.write('| property | exit | wall s | summary | notes |\n|---|---|---|---|---|\n')
    for k in sorted(res):
        v = res[k]
        f.write('| %s | %s | %s | %s | %s |\n' % (k, v['exit'], v['wall_s'], v['summary'], '; '.join(v['lines']).replace('|', '\\|')[:600]))
