#!/usr/bin/env python3
"""Runs every mutant under mutants/<PROP>/ against its property's quick check (on private copies of /repo)
and writes mutants/RESULTS.json + RESULTS.md. usage: tools/run_mutants.py [PROP ...]"""
import glob, json, os, subprocess, sys, time
here = os.path.dirname(os.path.dirname(os.path.abspath(__file__)))
props = sys.argv[1:] or sorted(os.path.basename(d) for d in glob.glob(os.path.join(here, 'mutants', 'C*')))
out = os.path.join(here, 'mutants', 'RESULTS.json')
res = json.load(open(out)) if os.path.exists(out) else {}
for p in props:
    for m in sorted(glob.glob(os.path.join(here, 'mutants', p, '*.diff'))):
        t0 = time.time()
        try:
            r = subprocess.run([os.path.join(here, 'tools', 'mutant.sh'), m, p], stdout=subprocess.PIPE, stderr=subprocess.STDOUT, text=True, timeout=1500)
            text, rc = r.stdout, r.returncode
        except subprocess.TimeoutExpired as e:
            text, rc = (e.stdout or ''), 99
        if 'MUTANT-INVALID' in text:
            status = 'invalid (does not build, or the repository\'s own tests catch it)'
        elif rc == 1 and 'VIOLATION property=' in text:
            status = 'killed'
        elif rc == 0:
            status = 'survived'
        else:
            status = 'inconclusive (exit %d)' % rc
        first = ''
        for line in text.splitlines():
            if line.startswith('violation: '):
                first = line[len('violation: '):][:300]
                break
        res['%s/%s' % (p, os.path.basename(m))] = dict(status=status, wall_s=round(time.time() - t0, 1), first_violation=first)
        print(p, os.path.basename(m), status, round(time.time() - t0, 1), flush=True)
        json.dump(res, open(out, 'w'), indent=1)
with open(os.path.join(here, 'mutants', 'RESULTS.md'), 'w') as f:
    f.write('| mutant | status | wall s | first violation reported |\n|---|---|---|---|\n')
    for k in sorted(res):
        v = res[k]
        f.write('| %s | %s | %s | %s |\n' % (k, v['status'], v['wall_s'], v['first_violation'].replace('|', '\\|')))
