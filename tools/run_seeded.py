#!/usr/bin/env python3
"""Confirms every seeded change under seeded/<PROP>-<X>/ independently (suite green with it, demonstration fails with
it and passes without) and runs the checks against it; writes seeded/RESULTS.json, seeded/RESULTS.md and each meta.json.
usage: tools/run_seeded.py [id ...]"""
import glob, json, os, re, subprocess, sys, time
here = os.path.dirname(os.path.dirname(os.path.abspath(__file__)))
EXTRA = {'C03-B': ['C17'], 'C05-B': ['C02', 'C17'], 'C16-B': ['C19'], 'C11-B': ['C13'], 'C02-B': ['C15'],
         'C11-C': ['C17'], 'C10-C': ['C13', 'C18'], 'C03-C': ['C18'], 'C01-D': ['C05', 'C17'], 'C09-F': ['C18'], 'C15-E': ['C16'],
         'C11-F': ['C17'], 'C17-E': ['C03'], 'C14-J': ['C05'], 'C15-G': ['C19'], 'C15-H': ['C16'], 'C11-H': ['C09'], 'C16-H': ['C19'],
         'C02-K': ['C19'], 'C03-K': ['C09'], 'C13-L': ['C11'], 'C14-K': ['C12'], 'C15-L': ['C07'], 'C08-K': ['C11'],
         'C15-N': ['C18'], 'C17-M': ['C16'], 'C18-M': ['C09'], 'C13-N': ['C06'], 'C15-M': ['C16'], 'C17-P': ['C16'], 'C01-O': ['C10'], 'C07-Q': ['C04'], 'C08-Q': ['C09'], 'C08-R': ['C12'], 'C17-Q': ['C11'], 'C07-E': ['C04'],
         # round 10 (one change per property): the check of the property whose clause the change breaks
         'C01-S': ['C02', 'C03'], 'C18-S': ['C10'], 'C06-S': ['C04', 'C07'], 'C09-S': ['C08'], 'C11-S': ['C10', 'C07'], 'C13-S': ['C02', 'C05'],
         'C15-S': ['C19'], 'C07-S': ['C04'], 'C17-S': ['C01', 'C10'], 'C04-S': ['C06', 'C13']}
# changes whose demonstration no longer fails on the repaired tree: the defect they relied on next to their own edit was fixed
ABSORBED = {'C02-G': 'F28 (318b962): the wrap test which this change altered was replaced by counting the records; the patch no longer applies',
            'C04-F': 'F22 (add28c3): the marker is saved before the payload of a skipped BigMessage is discarded',
            'C16-C': 'F23 (5fa9fa0): abandoned records are deleted, so no leftovers count against the limits of a later adoption',
            'C16-F': 'F23 (5fa9fa0): abandoned records are deleted, so no stale storage sequence numbers remain',
            'C03-G': 'F28 (318b962): the compensation line which this change altered fed counters which are derived from the number of records now; the demonstration no longer fails',
            'C07-F': 'F22 (add28c3): the acknowledgement goes out before the payload of a skipped BigMessage is discarded; the demonstration waits for a return which no longer comes at that point (it fails on the repaired tree without the change too)',
            'C08-H': 'its demonstration no longer fails on the repaired tree (since F24 the resend writes a DUP packet as two buffers and the scripted stall no longer hits); applied as a mutant (tools/mutant.sh seeded/C08-H/patch.diff C08) the change is still caught by C08'}
ids = sys.argv[1:] or sorted(os.path.basename(d) for d in glob.glob(os.path.join(here, 'seeded', 'C*-*')))
out = os.environ.get('SEEDED_RESULTS') or os.path.join(here, 'seeded', 'RESULTS.json')  # (a private file per partition; merge afterwards)
res = json.load(open(out)) if os.path.exists(out) else {}
partial = bool(os.environ.get('SEEDED_RESULTS'))
for i in ids:
    d = os.path.join(here, 'seeded', i)
    prop = i.split('-')[0]
    entry = dict(property=prop, checks={})
    for p in [prop] + EXTRA.get(i, []):
        t0 = time.time()
        try:
            r = subprocess.run([os.path.join(here, 'tools', 'seeded.sh'), d, p], stdout=subprocess.PIPE, stderr=subprocess.STDOUT, text=True, timeout=2400)
            text, rc = r.stdout, r.returncode
        except subprocess.TimeoutExpired as e:
            text, rc = (e.stdout or ''), 99
        m = re.search(r'demo \((.*?)\): fails with change (\d)/3, passes without (\d)/3', text)
        entry['confirmed'] = bool(m) and 'SEEDED-INVALID' not in text
        if m:
            entry['demo'] = dict(tests=m.group(1), fails_with_change='%s/3' % m.group(2), passes_without='%s/3' % m.group(3))
        first = ''
        for line in text.splitlines():
            if line.startswith('violation: '):
                first = line[len('violation: '):][:300]
                break
        status = 'caught' if rc == 1 and 'VIOLATION property=' in text else ('missed' if rc == 0 else 'inconclusive (exit %d)' % rc)
        entry['checks'][p] = dict(status=status, wall_s=round(time.time() - t0, 1), first_violation=first)
        print(i, p, status, round(time.time() - t0, 1), flush=True)
    res[i] = entry
    json.dump(res, open(out, 'w'), indent=1)
    notes = open(os.path.join(d, 'notes.md')).read() if os.path.exists(os.path.join(d, 'notes.md')) else ''
    if i in ABSORBED:
        entry['absorbed_by_fix'] = ABSORBED[i]
    meta = dict(id=i, breaks_property=prop, origin='fresh sub-agent given only the property text and its own worktree of /repo',
                needs_to_manifest=notes[:1500], confirmed_by='tools/seeded.sh: patch applied to a private copy of /repo; go build, go vet and the '
                'repository tests green twice; demonstration fails 3/3 with the change and passes 3/3 without', result=entry)
    json.dump(meta, open(os.path.join(d, 'meta.json'), 'w'), indent=1, ensure_ascii=False)
if partial:
    sys.exit(0)
with open(os.path.join(here, 'seeded', 'RESULTS.md'), 'w') as f:
    f.write('| seeded change | confirmed | check | status | wall s | first violation reported |\n|---|---|---|---|---|---|\n')
    for k in sorted(res):
        for p, v in res[k]['checks'].items():
            f.write('| %s | %s | %s | %s | %s | %s |\n' % (k, res[k].get('confirmed'), p, v['status'], v['wall_s'], v['first_violation'].replace('|', '\\|')))
