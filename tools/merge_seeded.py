#!/usr/bin/env python3
"""Merges the results of partitioned tools/run_seeded.py runs: usage tools/merge_seeded.py <verif-dir-of-a-run> ...
Takes seeded/RESULTS.json and seeded/<id>/meta.json of each given directory (later ones win), writes them into this
tree and rewrites seeded/RESULTS.md."""
import json, os, shutil, sys
here = os.path.dirname(os.path.dirname(os.path.abspath(__file__)))
out = os.path.join(here, 'seeded', 'RESULTS.json')
res = json.load(open(out)) if os.path.exists(out) else {}
for d in sys.argv[1:]:
    part = json.load(open(os.path.join(d, 'seeded', 'RESULTS.json')))
    res.update(part)
    for k in part:
        src = os.path.join(d, 'seeded', k, 'meta.json')
        if os.path.exists(src) and os.path.isdir(os.path.join(here, 'seeded', k)):
            shutil.copy(src, os.path.join(here, 'seeded', k, 'meta.json'))
json.dump(res, open(out, 'w'), indent=1)
with open(os.path.join(here, 'seeded', 'RESULTS.md'), 'w') as f:
    f.write('| seeded change | confirmed | check | status | wall s | first violation reported |\n|---|---|---|---|---|---|\n')
    for k in sorted(res):
        for p, v in res[k]['checks'].items():
            f.write('| %s | %s | %s | %s | %s | %s |\n' % (k, res[k].get('confirmed'), p, v['status'], v['wall_s'], v['first_violation'].replace('|', '\\|')))
print(len(res), 'changes')
