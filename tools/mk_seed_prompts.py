#!/usr/bin/env python3
"""Writes the prompt of a seeding round for every property: usage tools/mk_seed_prompts.py <round-dir> (e.g. /tmp/seed3).
A prompt holds the text of ONE property and one-paragraph summaries of the changes already known for it (taken from
the notes of the sub-agents of earlier rounds) — nothing about the checks in /verif. The worktrees are created by the caller."""
import glob, json, os, sys
root = sys.argv[1]
here = os.path.dirname(os.path.dirname(os.path.abspath(__file__)))
HEAD = """You are a careful Go engineer doing mutation-style robustness research on the MQTT 3.1.1 client library github.com/pascaldekloe/mqtt. You have your OWN git worktree of the repository at {wt} (work only there; never touch /repo, /verif or any other directory except {out} for your results). The sandbox has no network. For every go command use: `export GOFLAGS= GOPROXY=off GOSUMDB=off GOTOOLCHAIN=local` and always pass `-timeout` to `go test` (e.g. `go test -count=1 -timeout 120s ./...`); prefix long shell commands with `timeout 600`.

Below is a semantic property of the library that users rely on. Your task: produce TWO different, realistic source changes (call them A and B) to the library (non-test .go files in the worktree; files verif_on.go / verif_off.go and the `verifYield(...)` calls are build-tag instrumentation: leave them alone and do not rely on them) such that each change, on its own:
  1. still compiles and still passes the repository's existing test suite unchanged (`go build ./... && go vet ./... && go test -count=1 -timeout 300s ./...` all green, run it 2 times to be sure it is not flaky);
  2. BREAKS the property below — i.e. there is some input / operation sequence / schedule / fault / crash point for which the statement becomes false;
  3. needs something SPECIFIC to manifest: a particular interleaving, a fault or crash at a particular point, a multi-step sequence of operations, an unusual input or size, or two cooperating code sites that each look fine alone. Changes that ordinary use would expose at once (e.g. every publish fails) are NOT wanted. Think of plausible maintenance mistakes: a reordered pair of statements, a boundary off by one, an error path that forgets to undo something, an optimisation that skips a step under a rare condition, a lock released early, a stale value reused, a check moved after the side effect.
  4. comes with a DEMONSTRATION: a self-contained Go test file (package mqtt_test or package mqtt, placed in the worktree root or the relevant sub-package only while you run it) that FAILS with the change applied and PASSES on the unchanged worktree. The demonstration may use net.Pipe or a small hand-written fake net.Conn / mqtt.Persistence / Dialer, goroutines and timeouts; it must be deterministic enough to fail at least 9 times out of 10 with the change and pass 10 out of 10 without it, and finish in a few seconds. Look at the existing *_test.go files for how the tests drive a client over a pipe — you may copy what you need into your demo file, but keep the demo in ONE file per change (under ~250 lines).
A and B should differ in kind (different code site and different way of manifesting), not be two spellings of the same idea. Do NOT change the signature of any function (exported or not) and do not rename or remove identifiers: only bodies.

Deliverables (write them, then restore the worktree with `git -C {wt} checkout -- . && git -C {wt} clean -fdq`; never commit):
  {out}/A/patch.diff   — `git diff` of change A alone (library files only, no demo), applicable with `git apply` at the repository root
  {out}/A/demo_test.go — the demonstration for A (say in a header comment in which directory/package it must be placed)
  {out}/A/notes.md     — 5-15 lines: what the change is, why the existing tests do not notice, exactly what is needed for it to manifest, and the commands you ran with their outcome (suite green with change; demo fails with change; demo passes without)
  and the same three files under {out}/B/.
Verify each deliverable from a clean worktree before you finish: apply patch → suite green ×2 → demo fails; revert → demo passes.

If after a serious attempt you cannot find a second change that meets all conditions, deliver one and explain in B/notes.md what you tried. Do not weaken the conditions silently. Keep every single reply and every single file write SHORT (well under 10,000 tokens per message); read files with targeted ranges.

Your final message: one short paragraph per change (what, where, what it needs to manifest) and the verification outcomes.

"""
ROUND = """

IMPORTANT — this is a LATER round. {n} changes for this property are already known (summaries below). Do NOT repeat them or close variants of them (same code site with the same idea). Find two NEW changes that manifest in a different way. Aim for subtlety: prefer changes that need (a) a race between two goroutines (the read routine and a requester, two requesters, Close/Disconnect and something else), or (b) a sequence of three or more steps (fault, recovery, second fault; stop, restart, stop), or (c) a boundary value which only arises on one code path (identifier wrap at 0x3fff, sizes around 127/128/16383/16384/2097151 bytes or around the 128 KiB read buffer, the 512-slot limit, empty payloads or topics of maximal length), or (d) an error path which is almost never taken, or (e) state which survives a reconnect or a restart although it should not (or is lost although it should survive). Each must still keep the existing suite green and come with a demonstration that fails with it and passes without it.
"""
for line in open(os.path.join(here, 'properties.jsonl')):
    d = json.loads(line)
    pid = d['id']
    wt, out = os.path.join(root, pid), os.path.join(root, 'out', pid)
    os.makedirs(out, exist_ok=True)
    a = d['anchors']
    text = HEAD.format(wt=wt, out=out)
    text += "PROPERTY %s: %s\n\nStatement: %s\n\nQuantified over: %s\n\nWhy the existing tests cannot settle it: %s\n\nWhere it lives (anchors): files %s; mechanisms: %s; state: %s\n" % (
        pid, d['title'], d['statement'], d['quantifier']['text'], d['why_tests_cant'], a.get('files'), json.dumps(a.get('mechanisms')), json.dumps(a.get('state')))
    known = sorted(glob.glob(os.path.join(here, 'seeded', pid + '-*', 'notes.md')))
    text += ROUND.format(n=len(known))
    for k in known:
        body = open(k).read().strip().split('\n')
        text += "\n--- already known change %s ---\n%s\n" % (os.path.basename(os.path.dirname(k)).split('-')[1], '\n'.join(body[:9])[:1400])
    open(os.path.join(out, 'prompt.txt'), 'w').write(text)
    print(pid, len(text))
