#!/bin/bash
# Everything which takes long, one after the other (for `vp run`): mutant matrix, seeded-change matrix, thorough sweep.
cd "$(dirname "$0")/.."
rm -f mutants/RESULTS.json seeded/RESULTS.json thorough/RESULTS.json
python3 tools/run_mutants.py
python3 tools/run_seeded.py
python3 tools/run_thorough.py
python3 tools/mk_sensitivity.py
