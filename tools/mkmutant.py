#!/usr/bin/env python3
"""usage: tools/mkmutant.py <out.diff> <file> <<< JSON [[old,new],...]   — builds a unified diff against /repo"""
import sys, json, subprocess, tempfile, os, shutil
out, rel = sys.argv[1], sys.argv[2]
edits = json.load(sys.stdin)
src = open(os.path.join('/repo', rel)).read()
new = src
for old, repl in edits:
    assert new.count(old) == 1, (old, new.count(old))
    new = new.replace(old, repl)
d = tempfile.mkdtemp()
try:
    os.makedirs(os.path.join(d, 'a', os.path.dirname(rel)), exist_ok=True)
    os.makedirs(os.path.join(d, 'b', os.path.dirname(rel)), exist_ok=True)
    open(os.path.join(d, 'a', rel), 'w').write(src)
    open(os.path.join(d, 'b', rel), 'w').write(new)
    r = subprocess.run(['diff', '-u', os.path.join('a', rel), os.path.join('b', rel)], cwd=d, stdout=subprocess.PIPE, text=True)
    os.makedirs(os.path.dirname(out), exist_ok=True)
    open(out, 'w').write(r.stdout)
finally:
    shutil.rmtree(d)
print(out, len(r.stdout.splitlines()), 'lines')
