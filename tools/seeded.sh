#!/bin/bash
# usage: tools/seeded.sh <dir with patch.diff + demo_test.go> <PROP> [check args...]
# Confirms a seeded change independently (suite green with it, demonstration fails with it and passes
# without it) on private copies of /repo, then runs the property's check against the changed copy.
set -u
dir=$(realpath "$1"); prop=$2; shift 2
export GOFLAGS= GOPROXY=off GOSUMDB=off GOTOOLCHAIN=local
with=$(mktemp -d /tmp/seeded-with-XXXXXX); without=$(mktemp -d /tmp/seeded-without-XXXXXX)
trap 'rm -rf "$with" "$without"' EXIT
rsync -a --exclude .git /repo/ "$with/"; rsync -a --exclude .git /repo/ "$without/"
(cd "$with" && patch -p1 -s --no-backup-if-mismatch < "$dir/patch.diff") || { echo "SEEDED-INVALID: patch does not apply"; exit 3; }
sub=.
grep -qiE 'package mqtttest|mqtttest/|in (the )?mqtttest' "$dir/demo_test.go" && grep -q '^package mqtttest' "$dir/demo_test.go" && sub=mqtttest
for i in 1 2; do
  (cd "$with" && go build ./... && go vet ./... && go test -count=1 -timeout 300s ./... > "$with/.suite.log" 2>&1) || { echo "SEEDED-INVALID: suite not green with the change"; tail -5 "$with/.suite.log"; exit 3; }
done
cp "$dir/demo_test.go" "$with/$sub/zz_seeded_demo_test.go"; cp "$dir/demo_test.go" "$without/$sub/zz_seeded_demo_test.go"
tests=$(grep -oE '^func (Test[A-Za-z0-9_]+)' "$dir/demo_test.go" | awk '{print $2}' | paste -sd'|')
fails=0
for i in 1 2 3; do (cd "$with/$sub" && go test -count=1 -timeout 120s -run "^($tests)\$" . > "$with/.demo.log" 2>&1) || fails=$((fails+1)); done
passes=0
for i in 1 2 3; do (cd "$without/$sub" && go test -count=1 -timeout 120s -run "^($tests)\$" . > "$without/.demo.log" 2>&1) && passes=$((passes+1)); done
echo "demo ($tests in $sub): fails with change $fails/3, passes without $passes/3"
if [ $fails -lt 3 ] || [ $passes -lt 3 ]; then echo "SEEDED-INVALID: demonstration does not discriminate"; tail -5 "$with/.demo.log"; tail -5 "$without/.demo.log"; exit 3; fi
rm -f "$with/$sub/zz_seeded_demo_test.go"
cd /verif && VERIF_REPLAY_DIR="$with/.replays" VERIF_REPO="$with" ./check "$prop" --no-evidence "$@"
rc=$?
echo "seeded $(basename $(dirname $dir))/$(basename $dir) on $prop: exit $rc"
exit $rc
