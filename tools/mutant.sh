#!/bin/bash
# usage: tools/mutant.sh <patch.diff> <PROP> [check args...]
# Applies the patch to /repo, verifies that it builds and that the repository's own tests pass,
# runs the check (without rewriting evidence), and reverts the patch.
set -u
patch=$(realpath "$1"); prop=$2; shift 2
cd /repo || exit 2
if [ -n "$(git status --porcelain)" ]; then echo "repo dirty"; exit 2; fi
git apply "$patch" || { echo "patch does not apply"; exit 2; }
trap 'git -C /repo checkout -- . ; git -C /repo clean -fdq' EXIT
if [ -z "${SKIP_BASELINE:-}" ]; then
  if ! (go build ./... && go test -count=1 -timeout 300s ./... >/tmp/mutant-baseline.log 2>&1); then
    echo "MUTANT-INVALID: does not build or baseline tests fail"; tail -5 /tmp/mutant-baseline.log; exit 3
  fi
fi
cd /verif && ./check "$prop" --no-evidence "$@"
rc=$?
echo "mutant $(basename $patch) on $prop: exit $rc"
exit $rc
