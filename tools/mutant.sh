#!/bin/bash
# usage: tools/mutant.sh <patch.diff> <PROP> [check args...]
# Applies the patch to a private copy of /repo, verifies that the copy builds and that the
# repository's own tests pass, runs the check against the copy (without rewriting evidence),
# and removes the copy. /repo itself is never touched.
set -u
patch=$(realpath "$1"); prop=$2; shift 2
copy=$(mktemp -d /tmp/mutant-XXXXXX)
trap 'rm -rf "$copy"' EXIT
rsync -a --exclude .git /repo/ "$copy/"
cd "$copy" || exit 2
patch -p1 -s --no-backup-if-mismatch < "$patch" || { echo "MUTANT-INVALID: patch does not apply"; exit 3; }
export GOFLAGS= GOPROXY=off GOTOOLCHAIN=local
if [ -z "${SKIP_BASELINE:-}" ]; then
  if ! (go build ./... && go test -count=1 -timeout 300s ./... >"$copy/.baseline.log" 2>&1); then
    echo "MUTANT-INVALID: does not build or baseline tests fail"; tail -5 "$copy/.baseline.log"; exit 3
  fi
fi
cd /verif && VERIF_REPLAY_DIR="$copy/.replays" VERIF_REPO="$copy" ./check "$prop" --no-evidence "$@"
rc=$?
echo "mutant $(basename $patch) on $prop: exit $rc"
exit $rc
