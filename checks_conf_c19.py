"""Configuration of ./check C19 (FileSystem store atomicity across process stops).

Imported at the end of checks_conf.py:  from checks_conf_c19 import C19; PROPS['C19'] = C19
"""


def _rapid(run, checks, shards, timeout, **kw):
    d = dict(kind='rapid', run=run, checks=checks, shards=shards, steps=30, timeout=timeout)
    d.update(kw)
    return d


C19 = dict(
    level='fault_enumeration',
    level_text="Operation scripts are generated; per script the fault points are enumerated completely: a real child process "
               "runs the script on mqtt.FileSystem in a real directory under strace, once without faults to learn its system "
               "calls, then once per (system call, fault) with the process killed at the entry of that call or the call made "
               "to fail. The directory left behind is judged by a fresh process through Load/List/Save/Delete only. Right for a "
               "property quantified over 'every system call of Save/Delete': the calls are few and known exactly from the "
               "trace, so none needs to be sampled; what is sampled are scripts, value sizes, byte counts of the size-limit "
               "runs and the interleavings of the concurrent runs.",
    technique='property-based generation of scripts (rapid) x exhaustive syscall fault injection on a child process (strace '
              'inject: SIGKILL at entry, error return), RLIMIT_FSIZE for stops inside a write, model-based oracle in a fresh '
              'process, syscall-order oracle on the trace; concurrent processes/goroutines without faults',
    rule="TestC19FileSystemStops: script = 1-3 keys (from 9 incl. 0, 0x10000, 0x1ffff), 0-3 foreign directory entries "
         "(stale spool file of a script key / of another key, hex names shorter or longer than 5 digits, a text file), "
         "1-6 (thorough 1-10) operations of {save x5, delete x2, load, list}; values 12 B..64 KiB (thorough ..4 MiB) in 1-3 buffers "
         "(= 1-3 write calls); 0-2 (thorough 0-6) size-limit draws (operation, byte count incl. 0 and the first buffer seam, "
         "stop by SIGXFSZ | EFBIG). One evaluation = one execution of the script by a child with one fault: SIGKILL at the entry of "
         "call k; EIO in place of call k (ENOSPC too for open/write/fsync/rename of a Save); EIO on the first data write plus EIO "
         "on the removal of the spool file; a size-limit run; the dry run. All calls of all operations of the script are enumerated "
         "(inner_enumerations_completed counts scripts). Oracle per evaluation, by a fresh process: every key of the script and every "
         "key a foreign name could be mistaken for loads as exactly the value before or after the interrupted operation (completed "
         "operations: exactly their effect; a Save which reported an error: the previous value; a Save whose open/write/fsync/rename "
         "failed must report an error), List = exactly the loadable keys without duplicates, then Save+Delete of the interrupted "
         "key by the fresh process work and leave the other keys alone; results of the operations after a failed call are "
         "compared with the model in the running process as well. On the dry-run trace: a Save's data goes to a file other than "
         "the key's, and an fsync of that descriptor lies between the last data write and the rename onto the key. "
         "Non-trivial evaluation: the fault lies inside an overwrite, or a Delete, of a key which holds a value at that moment; "
         "distinct = distinct canonical scripts (FNV-1a 64) with at least one such evaluation. "
         "TestC19Concurrent: 1-3 processes x 1-3 goroutines on one directory, 2-6 keys, each with one saving goroutine (1 case in 12: one process with 24 goroutines, each saving 256 KiB - 1 MiB values under its own key, so that Saves of different keys overlap inside their write calls); loads, "
         "lists and deletes of any key from anywhere; stable keys (saved before, never deleted) must always load, with versions "
         "never going back, and always be listed; loads return complete values only; afterwards every key holds its writer's last "
         "value (or nothing if somebody else deletes it). Counts as one evaluation per case (label concurrent-run), never as non-trivial: that count is reserved for fault points.",
    assumptions=[
        "strace's syscall tampering does what its manual says: signal=SIGKILL stops the tracee before the call takes effect "
        "(checked per run: the trace must end at that call, and the calls before it must be those of the dry run), error= replaces the call",
        "a script issues the same system calls in every run of the same binary on the same input (checked per run, three attempts, else infrastructure error)",
        "the script runs on the main thread of the child (runtime.LockOSThread in init; checked by the child), which is the one thread strace follows",
        "a process stop is SIGKILL/SIGXFSZ on a live kernel: the page cache survives. Power loss is outside the property; the flush-before-rename "
        "order is judged from the system calls, not from a disk image",
        "ext4 semantics of the scratch directory (rename is atomic, directory listing does not see half-renamed entries)",
        "same-key concurrent Saves are outside the property ('operations on different keys'); they are not generated",
    ],
    children=(('fschild', './fschild'),),
    quick=dict(engines=[
        _rapid('^TestC19FileSystemStops$', 120, 2, 300, gomaxprocs=4, shrinktime='6s'),
        _rapid('^TestC19Concurrent$', 600, 2, 300, gomaxprocs=4, shrinktime='6s'),
    ]),
    thorough=dict(engines=[
        _rapid('^TestC19FileSystemStops$', 800, 3, 1500, gomaxprocs=4),
        _rapid('^TestC19Concurrent$', 8000, 3, 1500, gomaxprocs=4),
    ]),
)
