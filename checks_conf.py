"""Per-property configuration of ./check: which tests decide the property, how
many cases per tier, the stated non-triviality rule for the evidence."""

ASSUME_SIM = [
    "the simulated net.Conn/Dialer/Persistence stay inside the documented contracts (DESIGN.md §4)",
    "refmqtt (own MQTT 3.1.1 codec and broker model) is the trusted oracle",
    "goroutine scheduling between gates is whatever the Go runtime does; schedules are explored at gate granularity",
]


def rapid(run, checks, shards=8, steps=30, timeout=600, **kw):
    d = dict(kind='rapid', run=run, checks=checks, shards=shards, steps=steps, timeout=timeout)
    d.update(kw)
    return d


def test(run, timeout=600, **kw):
    d = dict(kind='test', run=run, timeout=timeout)
    d.update(kw)
    return d


HOOK_COMMITS = ['d7d5a0f']

# properties without a check yet (kept current; every one is planned, see DESIGN.md)
NOT_APPLICABLE = {p: 'check under construction in this session; not claimed until it runs clean and kills its mutants'
                  for p in ['C%02d' % i for i in range(1, 21)]}

PROPS = {
    'C13': dict(
        claimed=True,
        level='exploration',
        level_text="Differential testing of the read routine against a strict reference judge (MUST-accept / MUST-reject / EITHER per "
                   "inbound packet, with the in-order rules of the outbound transfers): rapid generates a client with 0-n "
                   "transfers at each stage plus a waiting Subscribe, and a stream of mostly valid traffic around hostile packets "
                   "(or a hostile handshake reply); the thorough tier adds a native coverage-guided fuzz target over "
                   "(handshake reply, stream, setup) seeded with every packet type. Asserted: no panic, ReadSlices returns, no "
                   "wait without a read deadline inside a packet or the handshake, violation => error + closed connection + "
                   "redial, accepted stream => exact replies, and completions/Deletes never exceed the in-order "
                   "acknowledgements present in the input. A separate generator bounds TotalAlloc growth for packets which "
                   "announce up to 256 MiB and deliver little.",
        technique='property-based testing (rapid, structure-aware mutations) and native go fuzzing; differential against a strict reference parser/state model',
        rule="setup = {0-3 at-least-once, 0-2 exactly-once before PUBREC, 0-2 after PUBREC, waiting Subscribe of 0/1/3 filters, "
             "read buffer 131072/64/256}; stream = 1-4 packets, each benign or one of {PUBACK/PUBREC/PUBCOMP/PUBREL with identifier "
             "zero / foreign space / off by one / completed / next in line, SUBACK with 0-4 codes incl. illegal ones and wrong "
             "count, UNSUBACK, PINGRESP, PUBLISH with QoS 0-3 / topic length beyond the packet / identifier zero or cut / "
             "flags, forbidden types 0,1,2,8,10,12,14,15, wrong / 5-byte / non-minimal / huge remaining length, reserved "
             "header flags, 1-12 random bytes}; or a hostile handshake reply (any flags x code, short, wrong type, random). "
             "Non-trivial: the reference reaches a verdict other than plain accept, or transfers were pending.",
        assumptions=ASSUME_SIM + ["strictness beyond the violations listed in the property (reserved header flags on acknowledgements, empty or ill-formed topic in an inbound PUBLISH, non-minimal length) is EITHER: the reference follows the client"],
        quick=dict(engines=[rapid('^TestC13Hostile', 8000), rapid('^TestC13AckBeforeWritten', 800), rapid('^TestC13Allocation', 48, shards=4)]),
        thorough=dict(engines=[rapid('^TestC13Hostile', 200000, shards=14, timeout=1500), rapid('^TestC13AckBeforeWritten', 20000, shards=14, timeout=1500), rapid('^TestC13Allocation', 400, shards=4),
                               dict(kind='fuzz', run='^FuzzC13BrokerBytes$', fuzztime='150s', parallel=12, timeout=600)]),
    ),
    'C10': dict(
        claimed=True,
        level='exploration',
        level_text="Systematic placement: the read routine is brought into one of nine states (parked in Read, holding a message with "
                   "an acknowledgement owed, parked inside its own acknowledgement or PUBREL write, holding a BigMessage, dialing, "
                   "in the handshake, resending), a failure strikes from one of eight sources (four kinds of foreign writers, read "
                   "reset, EOF, mid-packet stall, its own write), optionally with a goroutine parked at a hook point of "
                   "write/toOffline/connect/lockWrite, followed by 0-4 failed connects. The application then keeps calling "
                   "ReadSlices: every call must return or wait for input (hang oracle), the Dialer must be invoked again, Online "
                   "must be released on success, pending requests must return, a probe Ping must succeed, and ReadBackoff must "
                   "respect its documented bounds (2 ms / 16 ms, +2 s allowance).",
        technique='property-based testing (rapid) over reader state x failure source x hook placement x failed-connect count; bounded-liveness oracle',
        rule="reader state from 9 x 0-2 waiting requests x gate from {none, write.err, write.unlock, offline.enter, offline.break, "
             "connect.locked, connect.resend, lockwrite.wait} x failure from 8 x 0-4 failed connects (dial error | refusal | EOF "
             "in handshake | malformed CONNACK) x ReadBackoff used or not. Non-trivial: a failure by another goroutine while "
             "the read routine was not parked in Read, a hook gate in use, or >= 2 consecutive failed connects.",
        assumptions=ASSUME_SIM + ["ReadBackoff lower bounds are measured on the wall clock with 0.5 ms tolerance; upper bound documented idle + 2 s"],
        quick=dict(engines=[rapid('^TestC10', 1600)]),
        thorough=dict(engines=[rapid('^TestC10', 40000, shards=14, timeout=1500), rapid('^TestC10', 2000, shards=8, steps=30, timeout=1500, race=True)]),
    ),
    'C11': dict(
        claimed=True,
        level='exploration',
        level_text="Generated histories of concurrent Subscribe/Unsubscribe/Ping calls (quit nil / closed / fired later) against the "
                   "broker model, which answers in any drawn order, twice, unsolicited, with any subset of failed filters, while "
                   "connections break, writes fail or park and goroutines are parked at the slot-release hook points; optional "
                   "Close at the end. Every return value is validated against the event log (own packet, own response, loss "
                   "within lifetime, quit rules) and every call must return once its resolving event happened (hang oracle).",
        technique='stateful property-based testing (rapid) with gate-controlled schedules; per-call validity predicate over the event log',
        rule="actions {sub/unsub (1-4 unique filters)/ping with quit in {nil, closed, fired later}, answer (any owed response, "
             "drawn return codes incl. 0x80, optional duplicate), unsolicited SUBACK/UNSUBACK/PINGRESP, fireQuit, break, "
             "armWrite(reset|timeout|park|timeout-with-progress), releaseWrite, gate/releaseGate on {sub,unsub}.{fail,quit}, "
             "appStep}, then Close or drain. Pings overlap freely (the exclusion for finding F7 was lifted with its repair); "
             "TestC11PingSlotOwnership replays the history of F7 with the hook ping.fail. "
             "Non-trivial: >= 2 requests in flight when a response, a connection loss or a quit arrived.",
        assumptions=ASSUME_SIM,
        quick=dict(engines=[rapid('^TestC11Requests', 2400, steps=40), rapid('^TestC11CounterLap', 8, shards=8, fixed=True), rapid('^TestC11PingSlotOwnership', 6, shards=1, fixed=True)]),
        thorough=dict(engines=[rapid('^TestC11Requests', 60000, shards=14, steps=70, timeout=1500), rapid('^TestC11Requests', 2000, shards=8, steps=50, timeout=1500, race=True), rapid('^TestC11CounterLap', 56, shards=14, timeout=1500, fixed=True), rapid('^TestC11PingSlotOwnership', 6, shards=1, fixed=True)]),
    ),
    'C12': dict(
        claimed=True,
        level='exploration',
        level_text="The client is steered into one of ten states (incl. dialing, awaiting CONNACK, resending, writers parked inside "
                   "Write, reconnect pending) with requests of every type in flight; then 1-4 concurrent Close/Disconnect calls "
                   "(quit nil/open/closed/fired later) are issued, optionally with one of them parked at a hook point between the "
                   "steps of the shutdown. Return of every call (hang oracle), absence of panics, the state afterwards (ErrClosed "
                   "everywhere, signals, exchanges, connections closed, goroutine count back to the baseline) and DISCONNECT as "
                   "last packet are asserted. Placement at gate granularity; not all interleavings.",
        technique='property-based testing (rapid) over client states x concurrent shutdown calls x hook-point placement; post-state and bounded-liveness oracle',
        rule="state from {never-connected, dialing, awaiting-connack, resending, online-idle, online-holding, writers-parked, "
             "offline-after-failed-connect, reconnect-pending, already-closed} x 0-3 requests in flight from {pub0, sub, ping, "
             "pub1, pub2, unsub} x optional gate from {close.cancel, close.locked, disconnect.cancel, disconnect.locked, "
             "offline.enter, connect.locked, dial.done, handshake.done} x 1-4 shutdown calls from {Close, Disconnect(nil | open "
             "| closed | closed later)}. Non-trivial: a state other than online-idle/never-connected, or >= 2 concurrent calls.",
        assumptions=ASSUME_SIM + ["Disconnect with a nil or unfired quit may wait for a writer which is inside Write (documented: 'nil just blocks'); Close may not"],
        quick=dict(engines=[rapid('^TestC12Shutdown', 2400), rapid('^TestC12LibraryDialers', 160, shards=2)]),
        thorough=dict(engines=[rapid('^TestC12Shutdown', 60000, shards=14, timeout=1500), rapid('^TestC12Shutdown', 2000, shards=8, steps=30, timeout=1500, race=True), rapid('^TestC12LibraryDialers', 4000, shards=4, timeout=1500)]),
    ),
    'C04': dict(
        claimed=True,
        level='exploration',
        level_text="Generated inbound exactly-once histories with the broker model as sender (retransmission with DUP after reconnect, "
                   "PUBREL repeats, identifier reuse after completed cycles, messages beyond the read buffer), acknowledgements "
                   "lost after the write, write faults on the acknowledgement, marker Save/Load/Delete faults, and up to two "
                   "stop/adopt generations on the same Persistence with the broker session captured at the stop. Invariants over "
                   "the event log (no second return while the marker exists; PUBREC for every duplicate and PUBCOMP for every "
                   "PUBREL before the read routine waits again) plus a drain in which the sender model must complete every cycle.",
        technique='stateful property-based testing (rapid) with the reference broker as sender; event-log invariants and bounded-liveness drain',
        rule="actions {brokerSend (level 2 mostly; payload 0/1/20/beyond the read buffer; low and high identifiers, reuse after "
             "completion), appStep, hold, releaseOwed, break, loseTail, ackWriteFault, concurrent outbound requests, "
             "markerFault(S|L|D), restart at one of the last 4 stop points (<= 2)}; read buffer from {131072, 256, 1024}. The "
             "documented BUG combination (marker Save failed, then stop) is excluded by construction and counted. "
             "Non-trivial: a cycle saw a broker retransmission, or a restart happened.",
        assumptions=ASSUME_SIM,
        quick=dict(engines=[rapid('^TestC04', 1600, steps=40)]),
        thorough=dict(engines=[rapid('^TestC04', 40000, shards=14, steps=70, timeout=1500)]),
    ),
    'C07': dict(
        claimed=True,
        level='exploration',
        level_text="Generated inbound histories at all three levels in which the harness decides when the application calls "
                   "ReadSlices again (so 'still holds the slices' is an observable state), with connection loss, write faults on "
                   "the acknowledgement, lost acknowledgements and concurrent outbound requests in between. Timing of every "
                   "PUBACK/PUBREC relative to the application's calls, and the multiset of acknowledgements versus returns, are "
                   "checked on the totally ordered event log.",
        technique='stateful property-based testing (rapid) with harness-controlled ReadSlices steps; event-log invariants',
        rule="actions {brokerSend (levels 0/1/2; payload classes incl. beyond the read buffer), appStep, hold, releaseOwed, break, "
             "loseTail, ackWriteFault, concurrent pub0/sub/pub1}. Non-trivial: the application held a message while other "
             "actions ran, or a connection loss happened in the history.",
        assumptions=ASSUME_SIM,
        quick=dict(engines=[rapid('^TestC07', 1600, steps=40)]),
        thorough=dict(engines=[rapid('^TestC07', 40000, shards=14, steps=70, timeout=1500)]),
    ),
    'C06': dict(
        claimed=True,
        level='exploration',
        level_text="Generated well-formed broker streams x fragmentation scripts x progress-making deadline expiries x read-buffer "
                   "sizes (hook VerifSetReadBufSize) against the real read routine; the returns of ReadSlices (incl. BigMessage "
                   "Topic/Size/ReadAll) are compared with the PUBLISH packets sent and the acknowledgement bytes with the owed "
                   "ones, which also makes every fragmentation of one stream agree with every other (metamorphic relation via "
                   "the model). Sampling of an input x cut space.",
        technique='property-based testing (rapid): generated streams and fragmentation scripts, reference-model oracle (returns and acknowledgement bytes)',
        rule="stream = 1-12 packets of {PUBLISH level 0/1/2 (topic 1..buffer-8 bytes, payload classes empty | 1-40 | remaining "
             "length within +-2 of the read buffer | header fields ending exactly at the buffer end | 1-2 buffers beyond | 2-3 "
             "buffers; fresh, high and reused identifiers; retain; DUP on level 1), PINGRESP, PUBREL for an open or unknown "
             "identifier, retransmitted (DUP) exactly-once PUBLISH of an open cycle (suppressed), SUBACK/UNSUBACK nobody waits for}; read buffer from {64,100,128,256,1024,4096,131072}; fragmentation "
             "from {whole, byte-wise, random pieces, at field and buffer boundaries}; 0-6 expiries which fire only after "
             "progress; stream optionally coalesced with CONNACK; every third BigMessage skipped instead of read. "
             "Non-trivial: the stream was cut into >= 2 reads, or a payload sat at the buffer boundary, or an expiry was armed.",
        assumptions=ASSUME_SIM + ["the read buffer is shrunk through the verif hook in most cases; a share runs with the real 128 KiB"],
        quick=dict(engines=[rapid('^TestC06', 24000)]),
        thorough=dict(engines=[rapid('^TestC06', 100000, shards=14, timeout=1500)]),
    ),
    'C16': dict(
        claimed=True,
        level='fault_enumeration',
        level_text="Generated histories are stopped at drawn points of their Persistence log (states reachable under C02) and the "
                   "snapshot is damaged by a drawn set of 1-3 record faults (byte flip, truncation incl. to 0 and below 12 bytes, "
                   "removal) plus stray entries; the adopted client is then driven against the reference broker. The oracle is a "
                   "validity predicate: no fatal or panic, every damaged and every silently dropped record named by a warning, "
                   "first connect succeeds, only genuinely saved packets are transmitted in original order, they complete, new "
                   "identifiers do not collide. Damage sets are sampled, not enumerated.",
        technique='property-based testing (rapid): generated histories x generated damage sets, validity-predicate oracle with reference broker',
        rule="history = C01 action set without park/loseTail, Max 16 per level; 1-4 stop points per history; damage = 1-3 of "
             "{flip byte (position, xor value), truncate to {0,1,11,12,len-1,len/2}, remove} on outbound PUBLISH/PUBREL records, "
             "0-2 stray entries (garbage, empty, well-formed record of another type) under keys outside the identifier spaces. "
             "Records forged with a valid checksum are not generated (property excludes them); damage to the client-identifier "
             "record is excluded by construction while finding F17 is open (counted in excluded_by_known_finding). "
             "Non-trivial: >= 1 damaged record among >= 2 pending ones.",
        assumptions=ASSUME_SIM + ["a truncation to >= 12 bytes or a byte flip passes the 32-bit checksum with probability 2^-32; such forged-valid records are outside the property"],
        quick=dict(engines=[rapid('^TestC16Damage', 800, steps=30), rapid('^TestC16KnownF17', 40, shards=1, fixed=True), rapid('^TestC16KnownF31', 6, shards=1, fixed=True)]),
        thorough=dict(engines=[rapid('^TestC16Damage', 20000, shards=14, steps=50, timeout=1500), rapid('^TestC16KnownF17', 200, shards=1, fixed=True), rapid('^TestC16KnownF31', 20, shards=1, fixed=True)]),
    ),
    'C17': dict(
        claimed=True,
        level='exploration',
        level_text="Generated publish/acknowledge/deny/fail/restart histories with every kind of limit, started in a share of cases "
                   "from a session positioned at the identifier wrap; identifier uniqueness, the in-flight bound, consecutive "
                   "hand-out and the exact ErrMax condition are invariants over the Persistence operation log and the call "
                   "returns. A second generator drives the subscribe/unsubscribe slots to and past their limit, with abandoned "
                   "requests, late answers in three orders and (thorough tier) a wrap of the 13-bit counter with requests open.",
        technique='stateful property-based testing (rapid); invariants over the Persistence operation log and the reference decoder\'s view of the wire',
        rule="TestC17Identifiers: Max per level from {0,1,2,3,5,16,16384,-1,20000}; actions {pub1/pub2 in variants ok | invalid "
             "topic | failing Save, releaseAcks(1..6), break, appStep, restart at a drawn stop point (<= 2)}; two thirds of the "
             "cases start at identifiers 0x3ffd-0x3fff. TestC17Slots: 3..530 requests with answers withheld, every k-th "
             "abandoned, optional 8200 answered requests in between (counter wrap), answers for a drawn prefix of a "
             "forward/reverse/interleaved order, then connection loss. TestC17LimitBoundary: a limit from {16382,16383,16384,16385,8191,8193,-1} for one level, "
             "filled to the brim by an offline client (optionally from a session at the identifier wrap): exactly normMax(limit) acceptances, then ErrMax three times. Non-trivial: the limit was reached, the identifier "
             "wrapped, a restart had pending transfers, or requests were abandoned / beyond the slot limit.",
        assumptions=ASSUME_SIM,
        quick=dict(engines=[rapid('^TestC17Identifiers', 1600, steps=50), rapid('^TestC17Slots', 64, shards=8), rapid('^TestC17LimitBoundary', 16, shards=4)]),
        thorough=dict(engines=[rapid('^TestC17Identifiers', 40000, shards=14, steps=80, timeout=1500), rapid('^TestC17Slots', 600, shards=14, timeout=1500), rapid('^TestC17LimitBoundary', 400, shards=8, timeout=1500)]),
    ),
    'C02': dict(
        claimed=True,
        level='fault_enumeration',
        level_text="A generated first-generation history (C01 action set) is followed by an enumeration of stop points over the "
                   "prefixes of its Persistence operation log (all of them when the log is short; otherwise a subset that always "
                   "contains the points next to PUBREL saves and Deletes), each with the broker model's session as captured at "
                   "the same instant (early and late variant). Every stop point is adopted by a fresh client: no fatal, no "
                   "warning, exactly the obliged transfers on the first connection (identifier, order, stage, byte-exact), "
                   "identifiers continue, and after 0-2 further stop/adopt generations and a drain every persisted message "
                   "reached the broker model, exactly-once ones once. Crash points are enumerated per history; histories are sampled.",
        technique='property-based testing (rapid) of histories with per-history enumeration of crash points; reference broker model and obligation model as oracle',
        rule="history = C01 action set without park/loseTail, Max per level from {2,3,5,16,64,-1,20000}; stop points = prefixes "
             "k >= 2 of the store log x broker-state variant {as of end of op k-1, as of start of op k}; 0-2 further "
             "generations with drawn actions in between and a drawn stop point of the adopted client's own log (including "
             "inside its recovery). Non-trivial: a stop point with >= 1 pending record; distinct = distinct canonical scripts "
             "(history + stop-point summary). evaluations counts histories; the 'adoptions' label counts adopted stop points.",
        assumptions=ASSUME_SIM + ["Persistence operations are atomic: a stop leaves a prefix of the operation log"],
        exhaustive_note="stop points are enumerated completely per history when its log has <= 24 (quick) / 64 (thorough) operations; histories are sampled",
        quick=dict(engines=[rapid('^TestC02Restart', 640, steps=25), rapid('^TestC02FullWindow', 16, shards=8, fixed=True)]),
        thorough=dict(engines=[rapid('^TestC02Restart', 6000, shards=14, steps=40, timeout=1500), rapid('^TestC02FullWindow', 140, shards=14, timeout=1500, fixed=True)]),
    ),
    'C03': dict(
        claimed=True,
        level='fault_enumeration',
        level_text="As C02, restricted to exactly-once publishes: generated histories with connection, connect and Persistence faults, "
                   "then every stop point of the store log with the broker model's 'awaiting PUBREL' set captured at the same "
                   "instant; the broker model's delivery log decides 'forwarded once' at every step and after the final drain.",
        technique='property-based testing (rapid) of histories with per-history enumeration of crash points; reference broker delivery log as oracle',
        rule="as C02 with pub2 only. Non-trivial: a stop point with >= 1 pending exactly-once record; label "
             "'exactly-once-handshake-interrupted-by-stop' counts histories where a stop fell between PUBREC release and PUBCOMP.",
        assumptions=ASSUME_SIM + ["Persistence operations are atomic: a stop leaves a prefix of the operation log"],
        exhaustive_note="stop points are enumerated completely per history when its log has <= 24 (quick) / 64 (thorough) operations; histories are sampled",
        quick=dict(engines=[rapid('^TestC03', 640, steps=25)]),
        thorough=dict(engines=[rapid('^TestC03', 6000, shards=14, steps=40, timeout=1500)]),
    ),
    'C18': dict(
        claimed=True,
        level='exploration',
        level_text="Generated connect histories (scripted outcome per attempt, requests in every phase) against the real client; the "
                   "first packet, the clean-session bit, the ordering relative to CONNACK and resend, the error class of each "
                   "failed attempt and the wait/ErrDown rule per phase are checked from the event log. Sampling of histories.",
        technique='stateful property-based testing (rapid) with scripted Dialer/CONNACK outcomes; reference decoder and phase model as oracle',
        rule="rapid state machine over {attempt(ok | dial-error | refuse(code 1..255, flag byte) | raw malformed/truncated CONNACK | "
             "EOF | write fault at any byte of CONNECT | read fault at any byte of CONNACK | held handshake with 1-3 requests "
             "issued meanwhile, then accept/refuse), pub0/1/2, sub, ping, releaseAcks, breakNow, armWrite, parkResend, appStep} over "
             "Config combinations (clean session, keep-alive, user/password/will). Non-trivial: a failed attempt followed by an "
             "accepted connection, or requests issued during a held handshake; distinct canonical scripts.",
        assumptions=ASSUME_SIM,
        quick=dict(engines=[rapid('^TestC18', 1600, steps=40)]),
        thorough=dict(engines=[rapid('^TestC18', 24000, shards=14, steps=60, timeout=1800)]),
    ),
    'C05': dict(
        claimed=True,
        level='exploration',
        level_text="Generated histories with sequential and concurrently bursting publisher goroutines, parked at store, write and "
                   "hook gates, under the connection faults of C01; order and DUP rules are invariants over the per-connection "
                   "packet sequences and the Persistence operation log. Schedules are explored at gate granularity only.",
        technique='stateful property-based testing (rapid) with gate-controlled schedules; wire-order and DUP invariants over the event log',
        rule="C01 action set plus burst(n=2..6 goroutines, levels, gate in {none, submit.locked, submit.enqueued, store Save, "
             "conn Write}) with in-flight windows from {1,2,3,5,16,64}. Non-trivial: a connection carried two or more "
             "retransmissions (>= 2 in flight at a reconnect) or a concurrent burst ran; distinct canonical scripts.",
        assumptions=ASSUME_SIM,
        quick=dict(engines=[rapid('^TestC05', 1600, steps=40)]),
        thorough=dict(engines=[rapid('^TestC05', 40000, shards=14, steps=70, timeout=1500), rapid('^TestC05', 2000, shards=8, steps=50, timeout=1500, race=True)]),
    ),
    'C01': dict(
        claimed=True,
        level='exploration',
        level_text="Generated histories of persisted publishes under connection, connect and Persistence faults against the real "
                   "client and a conforming broker model; invariants over the totally ordered event log after every step plus a "
                   "drain phase in a healthy environment (bounded liveness with a hang oracle). Sampling of a fault x schedule "
                   "space; no absence claim.",
        technique='stateful property-based testing (rapid) with fault injection; reference broker model + event-log invariants as oracle',
        rule="rapid state machine over {pub1/pub2 (retain, topic and payload classes), releaseAcks(n), armWrite(offset; "
             "timeout-with-progress|timeout|reset), armRead(offset; eof|reset|stall|expiry-with-progress), breakNow, loseTail, "
             "dialScript(dial-error|refuse|malformed CONNACK|EOF in handshake), storeFault(Save|Delete|Load), parkResend + "
             "releaseWrite (publish while mid-resend), appStep} with AtLeastOnceMax/ExactlyOnceMax from {1,2,3,5,16}, then drain. "
             "Non-trivial: at least one accepted message was retransmitted on a later connection (resend block verified) or a "
             "store fault was injected while messages were pending, and everything completed in drain; distinct = distinct "
             "canonical action scripts.",
        assumptions=ASSUME_SIM,
        quick=dict(engines=[rapid('^TestC01', 1600, steps=40)]),
        thorough=dict(engines=[rapid('^TestC01', 40000, shards=14, steps=70, timeout=1500), rapid('^TestC01', 2000, shards=8, steps=50, timeout=1500, race=True)]),
    ),
    'C08': dict(
        claimed=True,
        level='exploration',
        level_text="Generated histories of concurrent requests and write faults against the real client; every byte the client "
                   "writes is parsed by an independent strict decoder and matched to an issued request. Sampling, not proof: "
                   "right for a property quantified over splits x schedules where the oracle is cheap and exact.",
        technique='stateful property-based testing (rapid) with fault-injecting net.Conn and reference-decoder oracle',
        rule="rapid state machine over {pub0/1/2 (retain, topic class, payload class), sub, unsub, ping, broker-sent "
             "messages (acks by the read routine), armWrite(offset, timeout-with-progress|timeout|reset|park), releaseWrite, "
             "releaseAcks, appStep}; every connection's byte log is parsed by the reference decoder after every step. "
             "Non-trivial: at least one write fault was armed (a Write was split) or a parked writer overlapped other "
             "requests; distinct = distinct canonical action scripts (64-bit FNV-1a).",
        assumptions=ASSUME_SIM,
        quick=dict(engines=[rapid('^TestC08WholePackets', 1600, steps=40), rapid('^TestC08Loopback', 160, shards=8, timeout=600)]),
        thorough=dict(engines=[rapid('^TestC08WholePackets', 40000, shards=14, steps=60, timeout=1500), rapid('^TestC08WholePackets', 2000, shards=8, steps=50, timeout=1500, race=True),
                               rapid('^TestC08Loopback', 4000, shards=14, timeout=1500), rapid('^TestC08Loopback', 800, shards=8, timeout=1500, race=True)]),
    ),
}

# --- pure checks (checks_conf_pure.py): C20 final; C14B and C15P are temporary entries for the pure halves of C14/C15 ---
from checks_conf_pure import C20, C14B_ENGINES_QUICK, C14B_ENGINES_THOROUGH, C14B_RULE, C15_ENGINES_QUICK, C15_ENGINES_THOROUGH, C15_RULE  # noqa: E402
C20['claimed'] = True
PROPS['C20'] = C20

from checks_conf_c19 import C19  # noqa: E402
C19['claimed'] = True
PROPS['C19'] = C19

PROPS['C14'] = dict(
    claimed=True,
    level='exploration',
    level_text="Two generated checks. (a) Histories: one request of each public method is issued in each client state (pending, attempt "
               "in progress, down, online, closed) under a fault placement (write fails at once / within the packet / expires "
               "after progress, response lost, malformed response, Persistence fault, Close while waiting, invalid argument, full "
               "queue) with quit nil / closed / fired while waiting; the returned error must be in the set the package "
               "documentation lists for that method, 'not submitted' classes must leave no byte of the request (unique marker) on "
               "any wire and no slot or record behind, IsDeny and IsEnd must be disjoint and Backoff nil exactly for the permanent "
               "classes. (b) Pure: error trees built from every error the library produces, wrapped and joined arbitrarily, "
               "checked differentially against errors.Is and for purity of the classifiers.",
    technique='property-based testing (rapid): state x method x fault-placement histories with a documented-class oracle; differential/purity check of the classifiers over generated error trees',
    rule="(a) state from {pending, attempt-in-progress, down, online, closed} x 12 methods x placement from 10 x quit from 3, unique "
         "marker in topic/filter; non-trivial = an error return under a fault. (b) " + C14B_RULE,
    assumptions=ASSUME_SIM,
    quick=dict(engines=[rapid('^TestC14aErrorClasses', 8000), rapid('^TestC14PingNeverWritten', 200, shards=4)] + C14B_ENGINES_QUICK),
    thorough=dict(engines=[rapid('^TestC14aErrorClasses', 200000, shards=14, timeout=1500), rapid('^TestC14PingNeverWritten', 6000, shards=8, timeout=1500)] + C14B_ENGINES_THOROUGH),
)

PROPS['C15'] = dict(
    claimed=True,
    level='fault_enumeration',
    level_text="Pure half: generated (packet, sequence number) pairs through the real encodeValue/decodeValue with an own FNV-1a as "
               "reference; per generated record the single-byte damage space (every position x all 255 other values) and every "
               "truncation below 12 bytes are enumerated completely, longer truncations and double damage are measured. "
               "Black-box half: every value a live client hands to Persistence.Save during generated histories is checked "
               "against the documented layout (strictly increasing sequence numbers, well-formed packet, right key), "
               "retransmissions equal the saved packets, and a record altered in one drawn byte is reported by AdoptSession and "
               "never transmitted nor used as client identifier.",
    technique='property-based testing (rapid) with exhaustive per-record damage enumeration; independent FNV-1a/layout reference; black-box layout check on a live client',
    rule="pure: " + C15_RULE + " black-box: histories over {pub1, pub2, releaseAcks, inbound exactly-once messages, appStep, break}, "
         "then one record (any key incl. the client identifier and inbound markers) altered at a drawn byte with a drawn "
         "non-zero xor and adopted; non-trivial = at least one record saved.",
    assumptions=ASSUME_SIM + ["32-bit checksum: damage of two or more bytes is measured, not claimed"],
    exhaustive_note="the single-byte damage enumeration is complete per generated record of <= 300 bytes; records are sampled",
    quick=dict(engines=C15_ENGINES_QUICK + [rapid('^TestC15bStoredValues', 1600, steps=25), rapid('^TestC15MarkerDamagedLive', 800)]),
    thorough=dict(engines=C15_ENGINES_THOROUGH + [rapid('^TestC15MarkerDamagedLive', 20000, shards=8, timeout=1500), rapid('^TestC15bStoredValues', 40000, shards=14, steps=40, timeout=1500),
                           dict(kind='fuzz', run='^FuzzC15Decode$', fuzztime='60s', parallel=8, timeout=400)]),
)

PROPS['C09'] = dict(
    claimed=True,
    level='exploration',
    level_text="Inputs are generated from the classes the property names (valid 1-4 byte UTF-8, boundary lengths, every kind of "
               "ill-formed UTF-8, NUL; payload sizes across the remaining-length width boundaries up to 2 MiB, in the thorough tier "
               "also one byte beyond the 256 MiB packet limit; 0-8 filters; every Config field combination and client identifiers "
               "of all classes, through InitSession and AdoptSession) and sent through the public API of a client on a healthy "
               "simulated connection. An independent validity predicate (own RFC 3629 validator, own size arithmetic) decides "
               "valid/invalid; valid requests must not be refused and the emitted packet must decode, with the strict "
               "reference decoder, to exactly the requested fields in canonical encoding (and equal the saved record); invalid "
               "ones must be IsDeny / a constructor error and leave wire, Persistence log, queues and slots untouched.",
    technique='property-based testing (rapid) with class-based string/size generators; independent validity predicate and strict reference decoder as oracle',
    rule="TestC09Requests: 1-4 requests of {Publish(Retained), PublishAtLeastOnce(Retained), PublishExactlyOnce(Retained), Subscribe "
         "x3 levels, Unsubscribe} with names from 19 string classes and payload classes {1-50, around 127/16383/2097151 total, "
         "empty, nil, (thorough) over the packet limit}; TestC09Connect: Config = clean session x keep-alive {0,1,255,256,65535} "
         "x user name class x password {none, empty, short, 65535, 65536} x will topic class x will message {nil, empty, short, "
         "65535, 65536} x retain x levels, client identifier class, via InitSession or AdoptSession. Packets at the 268,435,455-"
         "byte limit itself are not emitted (memory); the limit is exercised on the denial side only. Non-trivial: an input "
         "from a boundary or ill-formed class (everything but short valid ASCII).",
    assumptions=ASSUME_SIM,
    quick=dict(engines=[rapid('^TestC09Requests', 3200), rapid('^TestC09Connect', 8000), rapid('^TestC09MaxSize', 2000, shards=2)]),
    thorough=dict(engines=[rapid('^TestC09Requests', 80000, shards=14, timeout=1500), rapid('^TestC09Connect', 200000, shards=14, timeout=1500), rapid('^TestC09MaxSize', 40000, shards=4, timeout=1500)]),
)

# Generator and oracle extensions made while the checks were strengthened against the seeded changes (DESIGN.md §13).
RULE_ADDENDA = {
    'C01': "Also: slowSave (a Save parked inside the Persistence while the read routine and a publisher of the other level store); "
           "1 in 4 histories start from an adopted session whose pending identifiers stand 1-3 before the 14-bit wrap; every "
           "history draws pipe-like or socket-like connections. writerStuckThenReadFails (a publisher parked inside Write while only the inbound direction fails: the read routine must give the connection up); emptyPayloadCut (a fault right behind a packet without payload). Behind the recording Persistence double sits, per case, its own map (5 in 8), the library's in-memory map (2 in 8) or mqtt.FileSystem on a scratch directory (1 in 8). One case in five runs on a session made the way VolatileSession makes it (the library's map, no checksum layer). brokerSend (inbound traffic of all levels shares the read routine's buffers). CleanSession is requested in 1 of 3 histories. One case in four ends over a link which is slow yet steady: from the drain on every connection's write deadline expires after progress each 19 bytes; the backlog must go out all the same. After every ReadSlices error of the shared appStep action: ReadBackoff is nil for ErrClosed only.",
    'C02': "Also: the first process asks for a clean session in 1 of 3 histories (the adopting processes never do); the broker "
           "model forgets its session on a CONNECT which carries the flag. Behind the recording Persistence double sits, per case, its own map (5 in 8), the library's in-memory map (2 in 8) or mqtt.FileSystem on a scratch directory (1 in 8). TestC02FullWindow: adoption of a synthetic store with 16384, 16383 or 8192 transfers of one level pending, the oldest at identifier 0, 1, 0x1fff, 0x2000, 0x3ffe or 0x3fff, for level 2 with 0, 1, half, all but one or all at the PUBREL stage: exactly these are on the first connection, in order; a further publish gets ErrMax exactly when 16384 are pending. At one stop point in four the adoption is tried twice: the first try runs into a transient Load error (the n-th Load fails, n in 1-6); at one in five of the others the first try has limits of 1-3 (refused when more is pending): nothing accepted may get lost over either.",
    'C03': "Also: the first process asks for a clean session in 1 of 3 histories (the adopting processes never do); the broker "
           "model forgets its session on a CONNECT which carries the flag. Behind the recording Persistence double sits, per case, its own map (5 in 8), the library's in-memory map (2 in 8) or mqtt.FileSystem on a scratch directory (1 in 8).",
    'C04': "Also: restart optionally after an orderly end (Close from another goroutine while the application holds the last "
           "return, then one more ReadSlices). Ownership is taken as the property states it: the application invoked ReadSlices "
           "again after the return (a failing marker Save in that invocation excepted, as documented). The application skips every BigMessage in half of the histories (the next ReadSlices discards the payload); bigSkippedThenLoss: a message beyond the read buffer whose tail is cut by a read fault (reset, EOF, stall) while the skipped payload is discarded. Inbound identifiers may alias one in flight modulo 0x4000. Behind the recording Persistence double sits, per case, its own map (5 in 8), the library's in-memory map (2 in 8) or mqtt.FileSystem on a scratch directory (1 in 8). The inbound engine (C04, C06, C07) requests a clean session at the first connect in 1 of 3 histories (reconnects continue the session; a restart adopts without the flag). Action pubcompWriteFails: the write of the PUBCOMP fails (the PUBREL was handled), reconnect with the PUBCOMP owed; the broker reuses the identifier afterwards.",
    'C05': "Also: 1 in 4 histories start from a session positioned at the identifier wrap; optional restart at the end "
           "(adoption, continuation, resend order and DUP of the next process). Behind the recording Persistence double sits, per case, its own map (5 in 8), the library's in-memory map (2 in 8) or mqtt.FileSystem on a scratch directory (1 in 8). One case in five runs on a session made the way VolatileSession makes it (the library's map, no checksum layer). brokerSend (inbound traffic). CleanSession is requested in 1 of 3 histories (never by the process which adopts the session at the end). TestC05NoPauseTimeout: the Config default (no PauseTimeout, no write deadlines), pipe-like connections in 3 of 4 cases, persisted publishes without payload cut right behind the packet, reconnect: same order and DUP rules.",
    'C06': "Also (full-size read buffer only): 1 in 400 messages has a remaining length of 2,097,151, 2,097,152 or 2,097,153 bytes (three-byte to four-byte length). In 1 of 4 cases an earlier connection came first, which delivered 1-3 packets with a body and then failed inside ReadSlices (nothing of it may leak into the next connection).",
    'C07': "At the end of a drained case every exactly-once message which the broker completed must have been returned by ReadSlices (a message swallowed as a duplicate of a finished cycle is acknowledged without having been returned). Also: storeFault(S|L|D) on the inbound path. Same BigMessage skipping and bigSkippedThenLoss as in C04. Behind the recording Persistence double sits, per case, its own map (5 in 8), the library's in-memory map (2 in 8) or mqtt.FileSystem on a scratch directory (1 in 8). One ending in five: Disconnect from another goroutine while the application holds the last return.",
    'C08': "Also: resendFault (connection lost; a write fault 0-90 bytes into the retransmission on the next connection, of kind "
           "timeout, timeout-with-progress or reset). TestC08Loopback: a real client over TCP on 127.0.0.1 (net.Buffers through "
           "writev, the kernel cuts the writes): 1-4 goroutines with 1-5 requests each of {pub0, pub1 with payloads of 0, 1, 100, "
           "4000, 70000, 300000 bytes, sub, ping}, PauseTimeout 30 ms, a peer which sends CONNACK only and reads the first "
           "connection after a schedule of 0-6 steps (so many bytes, then a pause of 0-80 ms), 4 KiB socket buffers in half of "
           "the cases; oracle over the bytes each connection received (strict reference decoder, payload equality, success only "
           "when complete; time budgets are inconclusive, never violations). Non-trivial there: a reconnect, a connection which "
           "ended inside a packet, or a request which failed. cancelledWhileWaiting: 1-3 Publish calls with a quit channel wait for the connection and are cancelled, then 2-4 publishes at once. One ending in four: Disconnect (quit fired, firing later, or nil) while a writer is parked inside a packet. Behind the recording Persistence double sits, per case, its own map (5 in 8), the library's in-memory map (2 in 8) or mqtt.FileSystem on a scratch directory (1 in 8). One case in five runs on a session made the way VolatileSession makes it (the library's map, no checksum layer). wanderingPingresp (an unsolicited PINGRESP, possibly overtaking a PINGREQ in transit); a parked Write may fail once released; no more successful Pings than complete PINGREQ packets.",
    'C09': "Also: the over-the-limit payload class is drawn in 1 of 8 quick-tier cases. The over-the-limit string class also comes as 21,846 three-byte characters (over 65,535 bytes, under 65,535 characters). TestC09MaxSize: the six publish methods x topic lengths {1,2,7,100,65535} x remaining length 268,435,455 -7..+3 on an offline client with a fired quit (nothing of the 256 MiB is read): up to the limit never IsDeny, beyond it IsDeny. Strings with U+0000 behind a multi-byte character. An adoption with an illegal Config finds a junk record in the store (1 in 2): refused without touching it. TestC09Requests: one valid request in six meets a write deadline which expires once, 1-3 bytes into its packet (tolerated by the client); what is emitted must still be that one packet.",
    'C10': "Also: reader states skipping-dup-big (discarding the payload of a retransmitted exactly-once message larger than the "
           "read buffer, tail outstanding) and holding-big-tail-outstanding; failure 'silence' (nothing but PauseTimeout); in state handshake the broker may stay silent for good. Extra "
           "invariant: once ReadSlices reported an error while reading from a connection, no later ReadSlices reads from it. Reader state connack-arrives-under-slow-save (a persisted publish is inside a parked Persistence.Save when the CONNACK is released). mid-packet-stall prefixes also end inside the remaining-length bytes. Behind the recording Persistence double sits, per case, its own map (5 in 8), the library's in-memory map (2 in 8) or mqtt.FileSystem on a scratch directory (1 in 8). One case in five runs on a session made the way VolatileSession makes it (the library's map, no checksum layer). Failed connects include Dialer errors which wrap context.Canceled / context.DeadlineExceeded. Failure read-fails-close-is-slow: the peer half-closes, the read routine's Close of the connection is held up, a writer which held the lock completes and a new Subscribe goes out meanwhile: it must be released by that loss too. Failed attempts include a Dialer which returns the bare or wrapped context.Canceled while the client is open: that is a failed attempt like any other (redial follows), not the end of the client. One case in four runs without minimum wait (ReconnectWaitMin negative): ReadBackoff channels must close within ReconnectWaitMax + 600 ms (measured twice before it counts).",
    'C11': "TestC11CounterLap: 3-40 (thorough up to 530) Subscribe/Unsubscribe requests stay unanswered (every 3rd or 7th "
           "abandoned, or none), then 8200 answered requests make the 13-bit identifier counter lap them; answers for the open "
           "ones follow in forward, reverse or interleaved order. Also: connectFails (connection lost; the next attempt parks in the Dialer or in the handshake; 1-3 requests are "
           "issued meanwhile; the attempt fails; they must return without any further ReadSlices). 1 in 8 requests carries one filter sized such that the remaining length is 126-130. Behind the recording Persistence double sits, per case, its own map (5 in 8), the library's in-memory map (2 in 8) or mqtt.FileSystem on a scratch directory (1 in 8). One case in five runs on a session made the way VolatileSession makes it (the library's map, no checksum layer). malformedPingresp (PINGRESP with a remaining length of 1 or 2 while a Ping waits); a Ping counts as answered only by the exact bytes d0 00.",
    'C12': "Also: in state dialing the Dialer may ignore the end of its context and hand out a connection after Close (it must "
           "be closed; Close itself need not beat such a Dialer). State next-write-fails (the next Write on the connection times out or resets: DISCONNECT itself, if no request comes first). Behind the recording Persistence double sits, per case, its own map (5 in 8), the library's in-memory map (2 in 8) or mqtt.FileSystem on a scratch directory (1 in 8). One case in five runs on a session made the way VolatileSession makes it (the library's map, no checksum layer). Every error ReadSlices returns before ErrClosed must get a non-nil ReadBackoff. State connecting-behind-a-slow-save: a publisher sits inside a parked Persistence.Save (holds its sequence lock), the connection is lost, the read routine reconnects up to the wait for that lock, the shutdown arrives, the Save completes afterwards. State connect-write-parked: the peer stops taking bytes inside the CONNECT. After the shutdown every connection starts with (a prefix of) the CONNECT of the Config and carries whole packets only. One online case in four has a connection whose Close takes its time: a Close call which returns while another shutdown call still sits in conn.Close must find the signals flipped. TestC12LibraryDialers: NewDialer / NewTLSDialer over loopback TCP against a peer which accepts and stays silent; Close, Disconnect(nil) and Disconnect(fired quit) after 0-30 ms of dialing must return and ReadSlices must report ErrClosed within the hang oracle's quiet period (5 s).",
    'C13': "Also: after a violation and the redial a PUBLISH is sent on the fresh connection and must come out as sent (clean "
           "slate: no skip count, big-message marker or partial packet carried over). Setup may include 0-2 publishes per level refused by a failing Save; announced topic lengths up to 0xffff. TestC13AckBeforeWritten: 0-2 pending transfers, the next publish parks 0-12 bytes into its Write, the broker acknowledges everything including the packet in transit, the Write then ends by reset, timeout or completion: no panic, the call returns, the session goes on. Hostile packets include acknowledgements whose identifier is plausible (the one next in line among them) followed by 1-2 surplus bytes. One stream in six is cut 1-200 bytes short of its end (silence inside the last packet, e.g. in the payload of a message beyond the read buffer which the application does not read).",
    'C14': "Simulated half, state online without fault: in 1 of 3 cases an earlier persisted publish of the level was refused (its Save failed); the publish which follows must be accepted, report no submission error on its exchange and be on the wire. In 1 of 4 online cases the connection's Close reports an error (as a TLS close_notify to a peer which is gone). TestC14PingNeverWritten: Ping A written and abandoned, its PINGRESP late; a Subscribe/Publish parked inside Write holds the write lock; Ping B queues behind it; B's slot is emptied by the late PINGRESP or by a connection loss, before or after B's quit fires; when the transports took no byte while B ran, B's return must not be nil, ErrAbandoned or ErrBreak (the classes which say that the PINGREQ was submitted). Non-trivial: no byte was written while B ran.",
    'C15': "Also (stored-values half): the Persistence double reads the buffers when a slow Save gets to them, not on entry; "
           "slowSave overlaps Saves of the read routine and of both publish levels. A single-byte alteration of an inbound marker must be reported by AdoptSession too; the parked publish of slowSave may be retained, and 0-2 QoS 0 publishes compose their packets meanwhile. In 1 of 4 adoptions of the damaged store Persistence.Delete fails once (no panic, still reported, never used). Behind the recording Persistence double sits, per case, its own map (5 in 8), the library's in-memory map (2 in 8) or mqtt.FileSystem on a scratch directory (1 in 8). After the adoption of the altered store the first ReadSlices must neither panic nor fail (client-identifier record excepted: F17). TestC15MarkerDamagedLive: a reception marker is altered in one byte or cut while the client runs, then the broker retransmits the PUBLISH: ReadSlices must report an error, not deliver again in silence. The adoption at the end may use a Config with CleanSession (1 in 3).",
    'C16': "Also: AtLeastOnceMax/ExactlyOnceMax from {16,16,2,3,4}; 1 in 8 adoptions with Persistence.Delete failing once "
           "(only 'no panic' is judged then); 'second life' (the adopted client fills its queues, the process stops, the next "
           "AdoptSession without new damage must work, connect and complete). Before the second stop 0-4 PUBRECs are released; every transfer the adopted client itself accepted and had pending at its stop must be on the first connection of the next process. Behind the recording Persistence double sits, per case, its own map (5 in 8), the library's in-memory map (2 in 8) or mqtt.FileSystem on a scratch directory (1 in 8). In 1 of 4 adoptions the store is mqtt.FileSystem with 1-3 stray directory entries next to the records: an upper-case spelling of a record's name, a sub-directory named like a key, a spool leftover, foreign files, names of 4 and 6 hexadecimals. Damage kind 'hollow': a record whose bytes are well formed (sequence number plus matching checksum) yet hold no packet. One adoption in five is preceded by a misconfigured one (limits of 1) whose warnings count. Stray directories named like a record which a publish of the history will store are excluded by construction (open finding F31, probe TestC16KnownF31). The Delete which fails during adoption is the first to fourth; afterwards every outbound record still stored is either resumed by the client or the one whose Delete failed. Stray entries include symbolic links (to a directory, dangling) named like keys. AdoptSession runs under the hang oracle (no Persistence operation for 4 s).",
    'C17': "Also: resendFails (connection lost; the next one resets 0-80 bytes into the retransmission; the one after is healthy). ackDeleteFails (the Delete asked for by an acknowledgement fails; reconnect). TestC17Slots/TestC11CounterLap: in 1 of 3 cases an outage first, with 1032 requests refused while down. twoForTheLastSlot (one slot left, the reconnect parked inside its retransmission, two publishes arrive: exactly one ErrMax, no blocking). Behind the recording Persistence double sits, per case, its own map (5 in 8), the library's in-memory map (2 in 8) or mqtt.FileSystem on a scratch directory (1 in 8). Slots case: optionally a lone request abandoned after submission, then its successor (must not get the identifier whose answer is still owed). Slots engine prelude (1 in 3): a Subscribe which took its slot waits for the write lock (a publisher sits inside Write) when the connection is lost; it goes out on the next connection; the request which follows must get another identifier.",
    'C18': "Also: in a held handshake a persisted publish whose Save is still running when the CONNACK arrives. Behind the recording Persistence double sits, per case, its own map (5 in 8), the library's in-memory map (2 in 8) or mqtt.FileSystem on a scratch directory (1 in 8). An attempt whose CONNECT gets through (also with one tolerated expiry after progress) and whose CONNACK accepts at once must establish the connection. Raw CONNACK variants include odd reserved flag bytes (0x03, 0x81, 0xff) with return code 0.",
}
for _k, _v in RULE_ADDENDA.items():
    PROPS[_k]['rule'] = PROPS[_k]['rule'].rstrip() + ' ' + _v
