"""Configuration of the generated checks which need no network simulation:
C20 (mqtttest doubles), the pure half of C14 (error classifiers, TestC14b…)
and the pure half of C15 (stored record codec, TestC15p…). Imported by
checks_conf.py."""


def _rapid(run, checks, shards=8, steps=30, timeout=600, **kw):
    d = dict(kind='rapid', run=run, checks=checks, shards=shards, steps=steps, timeout=timeout)
    d.update(kw)
    return d


ASSUME_PURE = [
    "the recording testing.TB stands for a real test: Errorf/Error/Fail record a failure, Fatalf/Fatal/FailNow record one and "
    "end the calling goroutine, Cleanup functions run last-in first-out when the case ends",
    "invocations of a double are made sequentially, each in a goroutine of its own, except in TestC20MockConcurrent, where 2-8 "
    "goroutines use one mock whose expectations are all identical (the order of arrival then does not matter)",
]

C20 = dict(
    level='exploration',
    level_text="Generated expectation lists and invocation sequences over a small alphabet against the real mqtttest doubles, with "
               "a recording testing.TB as the test they report to; the reference decides 'deviation' from the generator's own "
               "record of which field it changed (re-derived from the values for filter sets). The alphabet is small enough that "
               "the quick tier already repeats most distinct cases; sampling, not enumeration, because the exchange scripts "
               "involve real (≤ 2 ms) delays and an open-ended wait.",
    technique='property-based testing (rapid) with a recording testing.TB double; differential against a reference verdict',
    rule="Mocks (NewPublishMock, NewSubscribeMock, NewUnsubscribeMock, NewReadSlicesMock): 0–4 expectations over messages "
         "{'', 'm', 'M', 'mm', 'm\\x00'} (nil and empty are the same message), topics {'t', 'T', 't/u', ''}, filter sets = "
         "non-repeating subsets of {'a', 'b/#', 'c/+', 'd'} in a drawn order (an empty expectation set rarely), results {nil, two "
         "own errors, ErrMax, ErrDown}; per expected call the message and the topic differ independently (1/6 each), a filter set "
         "is the same in another order, or misses one, or has one extra, or has one replaced; call count exact, or 1–2 more, or "
         "1–2 fewer; quit nil or open. A call with a closed quit goes to a second instance of the same mock after 0..n matching "
         "calls, where only its ErrCanceled return and the absence of a panic are checked (whether it uses up an expectation is "
         "not documented). Lists with a repeated filter and calls without any filter are not generated (the text says 'filter "
         "set'; the client denies an empty call). Oracle: no panic; a matching call adds no failure and returns the scripted "
         "error; at the end (after Cleanup) failed ⇔ deviation. Stubs: 1–4 calls with quit nil/open/closed ⇒ ErrCanceled exactly "
         "for closed, the fixed value otherwise; ReadSlices stub and mock: every byte of the returned slices (including spare "
         "capacity) is overwritten after each call, the fixtures and later returns must be unaffected, expectations optionally "
         "share one backing array. Exchange stub: 0–4 entries of {5 errors, ExchangeBlock of 1 µs–2 ms} plus an optional tail "
         "{ErrClosed, %w-wrapped ErrClosed, ExchangeBlock{}}, errFix non-nil only with an empty script, 1–2 invocations; the "
         "channel must deliver exactly the non-block entries in order (10 s allowance each), then close — or, with a tail, stay "
         "silent and open for 20 ms (plus the scripted delays before an indefinite block). Illegal scripts (nil entry, follow-up "
         "after ErrClosed / wrapped ErrClosed / ExchangeBlock{}, entries with a non-nil errFix) must panic at construction. "
         "TestC20ExchangeScript also judges time from below: a scripted error (and the close) never arrives before the delays of the blocks scripted in front of it have elapsed (time.Sleep never returns early; no upper bound beyond the 10 s arrival limit). TestC20MockConcurrent: publish, subscribe and unsubscribe mocks with N identical expectations used by 2-8 goroutines making 1, 10, 200 or 2000 matching calls each, N = calls + {0, -2..2}: failed <=> N differs from the number of calls, no panic, no error from a matching call. Non-trivial: exactly one differing field (or filter set) with the right call count, or an off-by-one call count with "
         "no differing field, or an exchange script of ≥ 2 entries; stub cases are counted as evaluations only. Distinct = "
         "distinct rendered cases (64-bit FNV-1a).",
    assumptions=ASSUME_PURE,
    quick=dict(engines=[_rapid('^TestC20Mock(Publish|Subscribe|ReadSlices|Stubs)', 120000), _rapid('^TestC20Exchange', 4000), _rapid('^TestC20MockConcurrent', 1600, gomaxprocs=8)]),
    thorough=dict(engines=[_rapid('^TestC20Mock(Publish|Subscribe|ReadSlices|Stubs)', 2000000, shards=14, timeout=1200), _rapid('^TestC20MockConcurrent', 40000, shards=14, gomaxprocs=8, timeout=1200),
                           _rapid('^TestC20Exchange', 70000, shards=14, timeout=1200)]),
)

C14B_RULE = (
    "pure half: error trees of depth ≤ 5 built by rapid. Leaves: the errors the public API of a never-connecting client returns "
    "for each denial (empty / invalid UTF-8 / NUL / 65536-byte topic or filter, no filters for Subscribe and Unsubscribe, a "
    "256 MiB payload, an invalid client identifier) and their innermost roots (= the deny sentinels of the reference, 7 on this "
    "tree), ErrClosed, ErrCanceled, ErrAbandoned and API-produced wraps of them, ErrDown, ErrMax, ErrSubmit, ErrBreak, ErrAuth, "
    "ErrUnavailable, io.EOF, io.ErrUnexpectedEOF, a net.OpError timeout, two own errors, a SubscribeError; leaf class drawn "
    "first (deny : end : other = 1 : 1 : 2). Inner nodes: fmt.Errorf with one, two or three %w; errors.Join of 1–4 members "
    "with nil members interleaved; Join of one; a pointer type with Is(target) matching one panel element, with and without an "
    "Unwrap child; a type whose Unwrap() error returns nil; types whose Unwrap() []error returns an empty, a nil, or their own "
    "internal slice with spare capacity. Not generated, because errors.Is and a hand-written walk need not agree or the errors "
    "package calls it invalid: uncomparable targets, nil members returned by a custom Unwrap() []error, %w of nil. Oracles: "
    "IsDeny(e) ⇔ ∃ sentinel d: errors.Is(e, d); IsEnd(e) ⇔ errors.Is(e, ErrClosed|ErrCanceled|ErrAbandoned); Backoff(e) nil ⇔ "
    "deny ∨ end ∨ errors.As(e, *SubscribeError) (not asserted for an artificial ErrMax+SubscribeError join); ReadBackoff(e) nil "
    "when errors.Is(e, ErrClosed), non-nil when neither deny nor end; purity: errors.Is against every comparable panel element, "
    "errors.As(SubscribeError) and e.Error() are identical before and after each of IsDeny, IsEnd, Backoff, "
    "IsConnectionRefused, ReadBackoff; no panic. Library-produced errors under 0–4 application %w wraps are in exactly one of "
    "deny/end (disjointness is asserted for these only, not for artificial joins of a denial with an end). Non-trivial: a "
    "tree with ≥ 1 multi-unwrap node (Join, multi-%w, custom Unwrap() []error with members); distinct = distinct rendered trees."
)
C14B_ENGINES_QUICK = [_rapid('^TestC14bClassifierTrees', 1200000), _rapid('^TestC14bLibraryErrors', 16000, shards=2)]
C14B_ENGINES_THOROUGH = [_rapid('^TestC14bClassifierTrees', 12000000, shards=14, timeout=1200),
                         _rapid('^TestC14bLibraryErrors', 64000, shards=2)]

C15_RULE = (
    "pure half: packet = 0–4 buffers (nil, empty, ≤ 3, ≤ 72, ≤ 1000 or, 1 in 400, ≤ 17 500 bytes each, i.e. 0…70 000 in "
    "total; random, all-zero, all-0xff or ramp content; 0–2 elements of spare capacity in the net.Buffers) × sequence number "
    "from {0, 1, 2^32−1, 2^32, 2^63, 2^64−1} or random 64-bit. Oracles: the stored value equals packet ‖ LE64(seqNo) ‖ "
    "BE32(FNV-1a(packet ‖ LE64(seqNo))) computed with an own FNV-1a; the input buffers are unchanged; decoding returns exactly "
    "(packet, seqNo, nil). Damage per record of n bytes: n ≤ 300: every position × all 255 other values (complete, counted as "
    "inner enumeration); n ≤ 4096: every position × 2 drawn values, all 255 values at 8 drawn positions and at the 12 trailer "
    "bytes; larger: trailer bytes × 3 values, all 255 values at one trailer byte, first and last byte of every buffer and "
    "1024 drawn positions × 1 drawn value. Every prefix and every suffix of fewer than 12 bytes must be reported corrupt; a "
    "panic in the decoder is a violation. Measured only (labels 'measured:…'): every truncation to ≥ 12 bytes (n ≤ 4096), 48 "
    "drawn two-byte damages per record (half of them adjacent), and for 1 in 16 records of ≤ 64 bytes all 255×4×255 "
    "combinations of the last hashed byte with one checksum byte. Non-trivial: a record with ≥ 1 packet byte; distinct = "
    "distinct (buffer lengths, fill, spare, seqNo, content hash)."
)
C15_ENGINES_QUICK = [_rapid('^TestC15p', 24000)]
C15_ENGINES_THOROUGH = [_rapid('^TestC15p', 420000, shards=14, timeout=1500)]
