#!/usr/bin/env python3
"""Regenerates MANIFEST.json from checks_conf.py (claimed checks) and properties.jsonl."""
import json, os, subprocess
from checks_conf import PROPS, NOT_APPLICABLE, HOOK_COMMITS

here = os.path.dirname(os.path.abspath(__file__))
ids = [json.loads(l)['id'] for l in open(os.path.join(here, 'properties.jsonl'))]
checks = []
for pid in ids:
    c = PROPS.get(pid)
    if not c or not c.get('claimed', False):
        continue
    checks.append(dict(
        property_id=pid,
        quick_cmd='./check %s --tier quick' % pid,
        thorough_cmd='./check %s --tier thorough' % pid,
        evidence_file='evidence/%s.json' % pid,
        replay_cmd_template='./check %s --replay {path}' % pid,
        engine='pbt-harness',
        level_claimed=dict(category=c['level'], text=c['level_text'], design_ref=c.get('design_ref', 'DESIGN.md §5 ' + pid)),
        level_note=c.get('level_note', 'Trusted base: refmqtt reference codec/broker, the simulated environment (sim), rapid v1.3.0, the Go toolchain. No absence claim beyond the explored cases.'),
        technique=c['technique'],
    ))
na = [dict(property_id=p, reason=NOT_APPLICABLE[p]) for p in ids if p not in {c['property_id'] for c in checks}]
m = dict(
    version=1,
    setup_cmd='./check --setup',
    hooks=dict(
        guard='verif',
        enable='Go build tag: ./check copies /repo\'s working tree to a scratch directory and compiles the harness against it with -tags verif',
        baseline_off_cmd='cd /repo && GOFLAGS= GOPROXY=off go test -json -vet=off -count=1 -timeout 25m ./...',
        source_commits=HOOK_COMMITS,
        add_only=True,
    ),
    engines=[dict(name='pbt-harness', path='harness/h', serves_properties=[c['property_id'] for c in checks],
                  kind_free_text='property-based testing (pgregory.net/rapid state machines and generators) against a simulated '
                                 'environment with an independent MQTT reference model as oracle; native go fuzzing in thorough tiers')],
    checks=checks,
    not_applicable=na,
    notes='Known findings and fixed defects: known_findings.json. Findings: DESIGN.md §12. Seeded breakages and hand-written mutants and what catches them: seeded/, mutants/, SENSITIVITY.md, DESIGN.md §13. Thorough-tier results: thorough/RESULTS.md.',
)
json.dump(m, open(os.path.join(here, 'MANIFEST.json'), 'w'), indent=1)
print('claimed:', ' '.join(c['property_id'] for c in checks))
