//go:build verif

package mqtt

import "net"

// Inert stand-ins for harness/export/zz_verif_export.go, used by the driver
// when that file does not compile against the tree under test (a signature it
// relies on was changed). Checks which need the real exports skip themselves
// and the run is reported as inconclusive unless another engine finds a
// violation.

const VerifExportAvailable = false

func VerifEncodeValue(packet net.Buffers, seqNo uint64) net.Buffers { panic("export shim unavailable") }

func VerifDecodeValue(buf []byte) (packet []byte, seqNo uint64, err error) {
	panic("export shim unavailable")
}

func VerifUnorderedSlots(c *Client) int { return 0 }

func VerifQueueLen(c *Client) (atLeastOnce, exactlyOnce int) { return 0, 0 }

func VerifReadBufSize() int { return 0 }

func VerifNewVolatile() Persistence { return nil }

func VerifInitSessionPlain(clientID string, p Persistence, c *Config) (*Client, error) {
	return nil, errVerifNoExport
}

var errVerifNoExport = errorString("export shim unavailable")

type errorString string

func (e errorString) Error() string { return string(e) }
