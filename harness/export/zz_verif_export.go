//go:build verif

package mqtt

import "net"

// Exports of unexported pure functions for the verification harness. This
// file lives in /verif and is copied into the scratch build tree only.

// VerifExportAvailable tells the harness that the exports below are real.
// (When this file does not compile against a changed tree the driver falls
// back to harness/export_stub, where they are inert.)
const VerifExportAvailable = true

// VerifEncodeValue exposes encodeValue.
func VerifEncodeValue(packet net.Buffers, seqNo uint64) net.Buffers {
	return encodeValue(packet, seqNo)
}

// VerifDecodeValue exposes decodeValue.
func VerifDecodeValue(buf []byte) (packet []byte, seqNo uint64, err error) { return decodeValue(buf) }

// VerifUnorderedSlots returns the number of subscribe/unsubscribe slots in use.
func VerifUnorderedSlots(c *Client) int {
	c.unorderedTxs.Lock()
	defer c.unorderedTxs.Unlock()
	return len(c.unorderedTxs.perPacketID)
}

// VerifQueueLen returns the number of persisted publishes in flight per level.
func VerifQueueLen(c *Client) (atLeastOnce, exactlyOnce int) {
	return len(c.atLeastOnce.queue), len(c.exactlyOnce.queue)
}

// VerifReadBufSize returns the current read buffer size.
func VerifReadBufSize() int { return readBufSize }

// VerifNewVolatile returns the library's own in-memory Persistence.
func VerifNewVolatile() Persistence { return newVolatile() }

// VerifInitSessionPlain is what VolatileSession does with its own map: a new
// session on p WITHOUT the sequence-number-and-checksum layer.
func VerifInitSessionPlain(clientID string, p Persistence, c *Config) (*Client, error) {
	return initSession(clientID, p, c)
}
