module verifh

go 1.23

require (
	github.com/pascaldekloe/mqtt v0.0.0
	pgregory.net/rapid v1.3.0
)

replace github.com/pascaldekloe/mqtt => ../src
