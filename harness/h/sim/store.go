package sim

import (
	"errors"
	"fmt"
	"net"
	"sort"

	"github.com/pascaldekloe/mqtt"
	"verifh/refmqtt"
)

// StoreOp is one logged Persistence operation.
type StoreOp struct {
	Seq    int  // event number of completion
	Kind   byte // 'S'ave, 'D'elete, 'L'oad, 'l'ist
	Key    uint
	Val    []byte // saved or loaded value
	Err    error
	Before refmqtt.Snapshot // broker session when the operation began (Save/Delete only)
	After  refmqtt.Snapshot // broker session when it completed
}

// ErrStore is the injected Persistence failure.
var ErrStore = errors.New("sim: injected persistence failure")

// Store is a recording Persistence with atomic operations: a failing
// operation has no effect, Load hands out a private copy.
type Store struct {
	w        *World
	m        map[uint][]byte
	initial  map[uint][]byte
	Ops      []StoreOp
	failNext map[byte]int // kind → number of upcoming operations to fail
	failNth  map[byte]int // kind → the n-th upcoming operation fails
	parkNext map[byte]int
	parked   int
	release  int
	unparks  int
	// inner, when set, is the Persistence which really holds the values (the
	// library's volatile map or its FileSystem): the Store still logs every
	// operation with a copy of what it was given and keeps m as the model of
	// the content, but what Load and List answer comes from inner. A
	// disagreement between the two is the inner one's doing.
	inner   mqtt.Persistence
	Flavour string
}

func newStore(w *World, initial map[uint][]byte, inner mqtt.Persistence, flavour string) *Store {
	s := &Store{w: w, m: map[uint][]byte{}, initial: map[uint][]byte{}, failNext: map[byte]int{}, parkNext: map[byte]int{}, inner: inner, Flavour: flavour}
	for k, v := range initial {
		s.m[k] = append([]byte(nil), v...)
		s.initial[k] = append([]byte(nil), v...)
		if inner != nil {
			if err := inner.Save(k, net.Buffers{append([]byte(nil), v...)}); err != nil {
				panic(fmt.Sprintf("VERIF-INFRA: %s store: initial Save(%#x): %v", flavour, k, err))
			}
		}
	}
	return s
}

// must hold mu; returns whether to fail
func (s *Store) gate(kind byte) bool {
	if s.parkNext[kind] > 0 {
		s.parkNext[kind]--
		s.parked++
		s.w.log(Event{Kind: EvPark, Str: "store-" + string(kind)})
		for s.release == 0 && !s.w.closedWorld {
			s.w.cond.Wait()
		}
		if s.release > 0 {
			s.release--
		}
		s.parked--
		s.unparks++
		s.w.log(Event{Kind: EvUnpark, Str: "store-" + string(kind)})
	}
	if n := s.failNth[kind]; n > 0 {
		s.failNth[kind] = n - 1
		if n == 1 {
			return true
		}
	}
	if s.failNext[kind] > 0 {
		s.failNext[kind]--
		return true
	}
	return false
}

// FailNth makes the n-th next operation of the kind fail without effect (n from 1).
func (s *Store) FailNth(kind byte, n int) {
	s.w.mu.Lock()
	if s.failNth == nil {
		s.failNth = map[byte]int{}
	}
	s.failNth[kind] = n
	s.w.mu.Unlock()
}

func (s *Store) record(op StoreOp) {
	op.Seq = len(s.w.Log)
	s.Ops = append(s.Ops, op)
	s.w.log(Event{Kind: EvStore, N: len(s.Ops) - 1, Str: string(op.Kind), Err: op.Err, Call: 0, Conn: 0, Data: nil})
}

// Load implements mqtt.Persistence.
func (s *Store) Load(key uint) ([]byte, error) {
	s.w.mu.Lock()
	defer s.w.mu.Unlock()
	if s.gate('L') {
		s.record(StoreOp{Kind: 'L', Key: key, Err: ErrStore})
		return nil, ErrStore
	}
	if s.inner != nil {
		v, err := s.inner.Load(key)
		s.record(StoreOp{Kind: 'L', Key: key, Val: append([]byte(nil), v...), Err: err})
		return v, err
	}
	v, ok := s.m[key]
	if !ok {
		s.record(StoreOp{Kind: 'L', Key: key})
		return nil, nil
	}
	cp := append(make([]byte, 0, len(v)), v...)
	s.record(StoreOp{Kind: 'L', Key: key, Val: v})
	return cp, nil
}

// Save implements mqtt.Persistence.
func (s *Store) Save(key uint, value net.Buffers) error {
	s.w.mu.Lock()
	defer s.w.mu.Unlock()
	failed := s.gate('S')
	// (the broker's state when the operation takes effect, not when a slow
	// one was entered: other operations complete while it is parked)
	before := s.w.Broker.Snapshot()
	// The buffers are read when the (possibly slow) operation gets to them,
	// not on entry: they are the caller's for the whole duration of the call.
	n := 0
	for _, b := range value {
		n += len(b)
	}
	v := make([]byte, 0, n)
	for _, b := range value {
		v = append(v, b...)
	}
	if failed {
		s.record(StoreOp{Kind: 'S', Key: key, Val: v, Err: ErrStore, Before: before, After: s.w.Broker.Snapshot()})
		return ErrStore
	}
	if s.inner != nil {
		// (the inner Persistence gets the caller's buffers themselves)
		if err := s.inner.Save(key, value); err != nil {
			s.record(StoreOp{Kind: 'S', Key: key, Val: v, Err: err, Before: before, After: s.w.Broker.Snapshot()})
			return err
		}
	}
	s.m[key] = v
	s.record(StoreOp{Kind: 'S', Key: key, Val: v, Before: before, After: s.w.Broker.Snapshot()})
	return nil
}

// Delete implements mqtt.Persistence.
func (s *Store) Delete(key uint) error {
	s.w.mu.Lock()
	defer s.w.mu.Unlock()
	failed := s.gate('D')
	before := s.w.Broker.Snapshot()
	if failed {
		s.record(StoreOp{Kind: 'D', Key: key, Err: ErrStore, Before: before, After: s.w.Broker.Snapshot()})
		return ErrStore
	}
	if s.inner != nil {
		if err := s.inner.Delete(key); err != nil {
			s.record(StoreOp{Kind: 'D', Key: key, Err: err, Before: before, After: s.w.Broker.Snapshot()})
			return err
		}
	}
	delete(s.m, key)
	s.record(StoreOp{Kind: 'D', Key: key, Before: before, After: s.w.Broker.Snapshot()})
	return nil
}

// List implements mqtt.Persistence.
func (s *Store) List() ([]uint, error) {
	s.w.mu.Lock()
	defer s.w.mu.Unlock()
	if s.gate('l') {
		s.record(StoreOp{Kind: 'l', Err: ErrStore})
		return nil, ErrStore
	}
	if s.inner != nil {
		keys, err := s.inner.List()
		s.record(StoreOp{Kind: 'l', Err: err})
		return keys, err
	}
	keys := make([]uint, 0, len(s.m))
	for k := range s.m {
		keys = append(keys, k)
	}
	sort.Slice(keys, func(i, j int) bool { return keys[i] < keys[j] })
	s.record(StoreOp{Kind: 'l'})
	return keys, nil
}

// FailNext makes the next operation of the kind fail without effect.
func (s *Store) FailNext(kind byte) {
	s.w.mu.Lock()
	s.failNext[kind]++
	s.w.mu.Unlock()
}

// ClearFaults removes armed failures and parks.
func (s *Store) ClearFaults() {
	s.w.mu.Lock()
	s.failNext = map[byte]int{}
	s.failNth = map[byte]int{}
	s.parkNext = map[byte]int{}
	s.w.mu.Unlock()
}

// ParkNext parks the next operation of the kind before it takes effect.
func (s *Store) ParkNext(kind byte) {
	s.w.mu.Lock()
	s.parkNext[kind]++
	s.w.mu.Unlock()
}

// Parked tells how many operations are parked.
func (s *Store) Parked() int {
	s.w.mu.Lock()
	defer s.w.mu.Unlock()
	return s.parked
}

// Release lets one parked operation continue.
func (s *Store) Release() bool {
	w := s.w
	w.mu.Lock()
	if s.parked == 0 {
		w.mu.Unlock()
		return false
	}
	before := s.unparks
	s.release++
	w.cond.Broadcast()
	w.mu.Unlock()
	w.Await(func() bool { return s.unparks > before })
	return true
}

// Content returns a deep copy of the current content.
func (s *Store) Content() map[uint][]byte {
	s.w.mu.Lock()
	defer s.w.mu.Unlock()
	return s.contentAt(len(s.Ops))
}

// NOps returns the number of logged operations.
func (s *Store) NOps() int {
	s.w.mu.Lock()
	defer s.w.mu.Unlock()
	return len(s.Ops)
}

// OpsCopy returns the operation log.
func (s *Store) OpsCopy() []StoreOp {
	s.w.mu.Lock()
	defer s.w.mu.Unlock()
	return s.Ops[:len(s.Ops):len(s.Ops)]
}

// SnapshotAt returns the content after the first k logged operations.
func (s *Store) SnapshotAt(k int) map[uint][]byte {
	s.w.mu.Lock()
	defer s.w.mu.Unlock()
	return s.contentAt(k)
}

func (s *Store) contentAt(k int) map[uint][]byte {
	m := map[uint][]byte{}
	for key, v := range s.initial {
		m[key] = append([]byte(nil), v...)
	}
	for _, op := range s.Ops[:k] {
		if op.Err != nil {
			continue
		}
		switch op.Kind {
		case 'S', 'X':
			m[op.Key] = append([]byte(nil), op.Val...)
		case 'D':
			delete(m, op.Key)
		}
	}
	return m
}

// Damage replaces the stored value of key behind the client's back (logged
// as operation kind 'X'): what a medium does to a record while the process runs.
func (s *Store) Damage(key uint, v []byte) {
	s.w.mu.Lock()
	defer s.w.mu.Unlock()
	v = append([]byte(nil), v...)
	if s.inner != nil {
		s.inner.Save(key, net.Buffers{v})
	}
	s.m[key] = v
	s.record(StoreOp{Kind: 'X', Key: key, Val: v})
}

// Has tells whether the key is present now.
func (s *Store) Has(key uint) bool {
	s.w.mu.Lock()
	defer s.w.mu.Unlock()
	_, ok := s.m[key]
	return ok
}

// ClearParks removes armed parks.
func (s *Store) ClearParks() {
	s.w.mu.Lock()
	s.parkNext = map[byte]int{}
	s.w.mu.Unlock()
}
