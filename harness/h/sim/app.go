package sim

import (
	"errors"
	"fmt"
	"runtime/debug"

	"github.com/pascaldekloe/mqtt"
)

// AppResult is one return of ReadSlices, with private copies.
type AppResult struct {
	StartSeq, EndSeq int
	Msg, Topic       []byte
	Err              error
	Big              bool
	BigTopic         string
	BigSize          int
	BigData          []byte
	BigRead          bool
	BigErr           error
	Panic            string
}

func (r AppResult) String() string {
	switch {
	case r.Panic != "":
		return "PANIC " + r.Panic
	case r.Big:
		return fmt.Sprintf("big topic=%d B size=%d read=%t readErr=%v", len(r.BigTopic), r.BigSize, r.BigRead, r.BigErr)
	case r.Err != nil:
		return "err=" + r.Err.Error()
	}
	return fmt.Sprintf("msg topic=%d B payload=%d B", len(r.Topic), len(r.Msg))
}

// App drives ReadSlices from one goroutine, one call per Step.
type App struct {
	w      *World
	step   chan struct{}
	inCall bool
	// inReadAll: the application is inside BigMessage.ReadAll (its own I/O, no deadline by design)
	inReadAll bool
	Results   []AppResult
	// ReadBig decides per BigMessage whether to ReadAll.
	ReadBig func(n int) bool
	stopped bool
}

func newApp(w *World) *App {
	a := &App{w: w, step: make(chan struct{}, 1)}
	if w.Client != nil {
		go a.run()
	}
	return a
}

func (a *App) run() {
	for range a.step {
		a.call()
	}
}

func (a *App) call() {
	w := a.w
	var r AppResult
	w.mu.Lock()
	r.StartSeq = w.log(Event{Kind: EvAppStart})
	w.mu.Unlock()
	func() {
		defer func() {
			if p := recover(); p != nil {
				r.Panic = fmt.Sprintf("%v\n%s", p, debug.Stack())
			}
		}()
		msg, topic, err := w.Client.ReadSlices()
		r.Msg = append([]byte(nil), msg...)
		r.Topic = append([]byte(nil), topic...)
		r.Err = err
		var big *mqtt.BigMessage
		if errors.As(err, &big) {
			r.Big = true
			r.BigTopic = big.Topic
			r.BigSize = big.Size
			read := true
			if a.ReadBig != nil {
				read = a.ReadBig(len(a.Results))
			}
			if read {
				r.BigRead = true
				w.mu.Lock()
				a.inReadAll = true
				w.mu.Unlock()
				r.BigData, r.BigErr = big.ReadAll()
				w.mu.Lock()
				a.inReadAll = false
				w.mu.Unlock()
			}
		}
	}()
	w.mu.Lock()
	a.Results = append(a.Results, r)
	r.EndSeq = w.log(Event{Kind: EvAppRet, N: len(a.Results) - 1, Str: r.String(), Err: nil})
	a.Results[len(a.Results)-1].EndSeq = r.EndSeq
	a.inCall = false
	if r.Panic != "" {
		w.panics = append(w.panics, "ReadSlices: "+r.Panic)
	}
	w.mu.Unlock()
}

// Step starts the next ReadSlices unless one is running. It reports whether
// a call was started.
func (a *App) Step() bool {
	w := a.w
	w.mu.Lock()
	if a.inCall || a.stopped || w.Client == nil {
		w.mu.Unlock()
		return false
	}
	a.inCall = true
	w.mu.Unlock()
	a.step <- struct{}{}
	return true
}

func (a *App) stop() {
	a.w.mu.Lock()
	if !a.stopped {
		a.stopped = true
		close(a.step)
	}
	a.w.mu.Unlock()
}

// InCall tells whether ReadSlices is running.
func (a *App) InCall() bool {
	a.w.mu.Lock()
	defer a.w.mu.Unlock()
	return a.inCall
}

// NResults returns the number of returns so far.
func (a *App) NResults() int {
	a.w.mu.Lock()
	defer a.w.mu.Unlock()
	return len(a.Results)
}

// Result returns the i-th return.
func (a *App) Result(i int) AppResult {
	a.w.mu.Lock()
	defer a.w.mu.Unlock()
	return a.Results[i]
}

// Last returns the latest return, if any.
func (a *App) Last() (AppResult, bool) {
	a.w.mu.Lock()
	defer a.w.mu.Unlock()
	if len(a.Results) == 0 {
		return AppResult{}, false
	}
	return a.Results[len(a.Results)-1], true
}

// Call is a request running in its own goroutine.
type Call struct {
	N        int
	Name     string
	Done     bool
	Err      error
	Exch     <-chan error
	ExchErrs []error
	ExchDone bool
	ExchSeq  int // event number at which the close was observed
	StartSeq int
	EndSeq   int
	Panic    string
	Meta     interface{}
}

// Go runs f as a request.
func (w *World) Go(name string, meta interface{}, f func() (<-chan error, error)) *Call {
	w.mu.Lock()
	c := &Call{N: len(w.Calls) + 1, Name: name, Meta: meta}
	w.Calls = append(w.Calls, c)
	c.StartSeq = w.log(Event{Kind: EvCallStart, Call: c.N, Str: name})
	w.mu.Unlock()
	go func() {
		var exch <-chan error
		var err error
		var pan string
		func() {
			defer func() {
				if p := recover(); p != nil {
					pan = fmt.Sprintf("%v\n%s", p, debug.Stack())
				}
			}()
			exch, err = f()
		}()
		w.mu.Lock()
		c.Exch, c.Err, c.Panic = exch, err, pan
		c.Done = true
		s := "ok"
		if pan != "" {
			s = "PANIC"
			w.panics = append(w.panics, name+": "+pan)
		}
		c.EndSeq = w.log(Event{Kind: EvCallRet, Call: c.N, Str: s, Err: err})
		w.mu.Unlock()
	}()
	return c
}

// IsDone tells whether the request returned.
func (w *World) IsDone(c *Call) bool {
	w.mu.Lock()
	defer w.mu.Unlock()
	return c.Done
}

// SettleCall waits until the request returned or apparently blocks.
func (w *World) SettleCall(c *Call) bool {
	return w.AwaitQuiet(quietShort, func() bool { return c.Done })
}

// PollExchanges drains the exchange channels without blocking.
func (w *World) PollExchanges() {
	w.mu.Lock()
	defer w.mu.Unlock()
	for _, c := range w.Calls {
		if !c.Done || c.Exch == nil || c.ExchDone {
			continue
		}
	drain:
		for {
			select {
			case err, ok := <-c.Exch:
				if !ok {
					c.ExchDone = true
					c.ExchSeq = w.log(Event{Kind: EvNote, Call: c.N, Str: "exchange closed (observed)"})
					break drain
				}
				c.ExchErrs = append(c.ExchErrs, err)
				w.log(Event{Kind: EvNote, Call: c.N, Str: "exchange error (observed)", Err: err})
			default:
				break drain
			}
		}
	}
}

// Panics returns recovered panics of client code.
func (w *World) Panics() []string {
	w.mu.Lock()
	defer w.mu.Unlock()
	return append([]string(nil), w.panics...)
}

// InReadAll tells whether the application is inside BigMessage.ReadAll.
func (a *App) InReadAll() bool {
	a.w.mu.Lock()
	defer a.w.mu.Unlock()
	return a.inReadAll
}
