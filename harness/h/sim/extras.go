package sim

import (
	"runtime"
	"time"
)

// WithLock runs f while holding the world lock.
func (w *World) WithLock(f func()) {
	w.mu.Lock()
	defer w.mu.Unlock()
	f()
}

// SendLocked is Send for callers inside WithLock.
func (c *Conn) SendLocked(b []byte) { c.enqueue(b) }

// SetAutoAck switches the drain mode of the broker on or off.
func (w *World) SetAutoAck(on bool) {
	w.mu.Lock()
	w.AutoAck = on
	w.mu.Unlock()
}

// ClearFaultsLocked disarms everything on the connection.
func (c *Conn) ClearFaultsLocked() {
	c.wfaults = nil
	c.rfaults = nil
	c.chunks = nil
	c.expireNow = false
	c.w.cond.Broadcast()
}

// AllConns returns the connections handed out so far.
func (w *World) AllConns() []*Conn {
	w.mu.Lock()
	defer w.mu.Unlock()
	return append([]*Conn(nil), w.Conns...)
}

// FlushOwedLocked releases everything owed on the connection, in order.
func (w *World) FlushOwedLocked(c *Conn) {
	if !c.Alive() || !c.State.Accepted {
		return
	}
	for len(c.State.Owed) != 0 {
		w.releaseOwed(c, 0)
	}
}

// ReaderSettled tells whether the read routine is at rest.
func (w *World) ReaderSettled() bool {
	w.mu.Lock()
	defer w.mu.Unlock()
	return w.readerSettled()
}

// ReaderWaiting tells whether the read routine waits for input on a live connection.
func (w *World) ReaderWaiting() bool {
	w.mu.Lock()
	defer w.mu.Unlock()
	if !w.App.inCall {
		return false
	}
	for _, c := range w.Conns {
		if c.readerParked && !c.deliverable() {
			return true
		}
	}
	return false
}

// OutCopy returns the bytes accepted from the client so far.
func (c *Conn) OutCopy() []byte {
	c.w.mu.Lock()
	defer c.w.mu.Unlock()
	return append([]byte(nil), c.Out...)
}

// WritesAfterFailure counts Write calls issued after a Write on this
// connection failed for good.
func (c *Conn) WritesAfterFailure() int {
	c.w.mu.Lock()
	defer c.w.mu.Unlock()
	return c.WritesAfterFail
}

// ClientIDWant is the client identifier CONNECT must carry.
func (w *World) ClientIDWant() string { return w.clientID }

// Poll is Await with a predicate that takes locks itself.
func (w *World) Poll(pred func() bool) error {
	start := time.Now()
	for i := 0; ; i++ {
		if pred() {
			return nil
		}
		w.mu.Lock()
		last := w.lastEvent
		w.mu.Unlock()
		now := time.Now()
		if last.Before(start) {
			last = start
		}
		if now.Sub(last) > w.hangQuiet() {
			return ErrHang
		}
		if now.Sub(start) > 10*time.Minute {
			return ErrSlow
		}
		switch {
		case i < 50:
			runtime.Gosched()
		case i < 200:
			time.Sleep(20 * time.Microsecond)
		default:
			time.Sleep(200 * time.Microsecond)
		}
	}
}

// MustPoll is Poll with a violation on hang.
func (w *World) MustPoll(what string, pred func() bool) {
	switch err := w.Poll(pred); err {
	case nil:
	case ErrHang:
		w.hangDump(what)
		w.Failf("hang: %s did not happen; no event for %v", what, w.hangQuiet())
	default:
		w.T.Fatalf("VERIF-INFRA inconclusive wait for %s: %v", what, err)
	}
}

// PollQuiet polls pred (unlocked) until it holds or the log was quiet for d.
func (w *World) PollQuiet(d time.Duration, pred func() bool) bool {
	start := time.Now()
	for i := 0; ; i++ {
		if pred() {
			return true
		}
		w.mu.Lock()
		last := w.lastEvent
		w.mu.Unlock()
		now := time.Now()
		if last.Before(start) {
			last = start
		}
		if now.Sub(last) > d {
			return pred()
		}
		if i < 50 {
			runtime.Gosched()
		} else {
			time.Sleep(50 * time.Microsecond)
		}
	}
}

// ArmWriteLocked is ArmWrite for callers which hold the world lock (NextConnOpts).
func (c *Conn) ArmWriteLocked(f WFault) { c.wfaults = append(c.wfaults, f) }

// ArmReadLocked is ArmRead for callers which hold the world lock.
func (c *Conn) ArmReadLocked(f RFault) { c.rfaults = append(c.rfaults, f) }

// ExpireStalledRead simulates the passing of PauseTimeout: when the read
// routine waits for input with a deadline set, the Read times out. It reports
// whether a Read was expired.
func (w *World) ExpireStalledRead() bool {
	w.mu.Lock()
	defer w.mu.Unlock()
	for _, c := range w.Conns {
		if c.readerParked && c.rdl && !c.deliverable() {
			c.expireNow = true
			w.log(Event{Kind: EvNote, Conn: c.N, Str: "PauseTimeout passes: parked Read expires"})
			w.cond.Broadcast()
			return true
		}
	}
	return false
}

// FragmentLocked is Fragment for callers which hold the world lock.
func (c *Conn) FragmentLocked(chunks []int) { c.chunks = append(c.chunks, chunks...) }

// WritersParkedAny tells whether a Write is parked on any connection.
func (w *World) WritersParkedAny() bool {
	w.mu.Lock()
	defer w.mu.Unlock()
	for _, c := range w.Conns {
		if c.writersParked > 0 {
			return true
		}
	}
	return false
}

// OpenAllGates disarms every hook gate and releases whoever is parked there.
func (w *World) OpenAllGates() {
	w.mu.Lock()
	for _, g := range w.gates {
		g.armed = 0
		g.release += g.parked
	}
	w.cond.Broadcast()
	w.mu.Unlock()
	w.Await(func() bool {
		for _, g := range w.gates {
			if g.parked > 0 {
				return false
			}
		}
		return true
	})
	w.mu.Lock()
	for _, g := range w.gates {
		g.release = 0
	}
	w.mu.Unlock()
}

// DialCount returns the number of Dialer invocations so far.
func (w *World) DialCount() int {
	w.mu.Lock()
	defer w.mu.Unlock()
	return w.Dials
}

// ParkNoDeadlineOffsets returns the inbound offsets at which a Read had to
// wait for input while no read deadline was set.
func (c *Conn) ParkNoDeadlineOffsets() []int {
	c.w.mu.Lock()
	defer c.w.mu.Unlock()
	return append([]int(nil), c.ParkNoDeadline...)
}

// Accepted tells whether the broker accepted the CONNECT of this connection
// (read under the world lock; State is written by the client's writers).
func (c *Conn) Accepted() bool {
	c.w.mu.Lock()
	defer c.w.mu.Unlock()
	return c.State.Accepted
}

// AliveNow is Alive for callers which do not hold the world lock.
func (c *Conn) AliveNow() bool {
	c.w.mu.Lock()
	defer c.w.mu.Unlock()
	return c.Alive()
}

// CurrentLocked is Current for callers which hold the world lock.
func (w *World) CurrentLocked() *Conn { return w.current() }

// WritersParkedAnyLocked is WritersParkedAny for callers which hold the world lock.
func (w *World) WritersParkedAnyLocked() bool {
	for _, c := range w.Conns {
		if c.writersParked > 0 {
			return true
		}
	}
	return false
}
