package sim

import (
	"errors"
	"fmt"
	"io"
	"net"
	"os"
	"syscall"
	"time"

	"verifh/refmqtt"
)

// Write faults.
const (
	WTimeoutProgress = iota + 1 // deadline expiry at the offset; fires only with bytes accepted before it in the same Write…
	WTimeout                    // deadline expiry at the offset, progress or not
	WReset                      // hard error at the offset; the connection is dead afterwards
	WPark                       // park the Write which reaches the offset, until released or closed
)

// WFault is armed at an absolute offset of the outbound byte stream.
type WFault struct {
	Off  int
	Kind int
}

// Read events.
const (
	RExpiryProgress = iota + 1 // deadline expiry after at least one byte since the deadline was set
	RExpiry                    // deadline expiry regardless of progress (a genuine stall)
	REOF
	RReset
)

// RFault is armed at an absolute offset of the inbound byte stream.
type RFault struct {
	Off  int
	Kind int
}

// CONNACK policies.
const (
	ConnackAuto = iota // answer CONNECT at once with Code, session-present by the book
	ConnackHold        // keep CONNACK owed until the harness releases it
	ConnackRaw         // answer CONNECT with Raw bytes
	ConnackEOF         // close after CONNECT
)

// ConnackPolicy scripts the broker's answer to CONNECT on a connection.
type ConnackPolicy struct {
	Kind  int
	Code  byte
	Raw   []byte
	Extra []byte // appended after an accepting CONNACK (coalesced packets)
}

type timeoutError struct{ op string }

func (e *timeoutError) Error() string   { return "sim: " + e.op + " i/o timeout" }
func (e *timeoutError) Timeout() bool   { return true }
func (e *timeoutError) Temporary() bool { return true }
func (e *timeoutError) Is(target error) bool {
	return target == os.ErrDeadlineExceeded
}

var _ net.Error = (*timeoutError)(nil)

// Conn is a scripted net.Conn.
type Conn struct {
	w *World
	N int // 1-based ordinal

	Out                                  []byte // bytes accepted from the client
	fedLimit                             int    // bytes beyond this offset never reach the broker (-1 = no limit)
	wfaults                              []WFault
	parkClose, closeParked, closeRelease bool
	// CloseErr is what the first Close returns (nil normally).
	CloseErr error
	wdl, rdl bool
	// a deadline which has passed stays passed until it is set anew: every
	// further Read (Write) fails at once, as on a real connection
	rdlExpired, wdlExpired bool
	// event numbers at which the deadlines were set last: both directions use
	// the same duration (PauseTimeout), so when a write deadline passes, a read
	// deadline which was set before it has passed too
	rdlSetSeq, wdlSetSeq int
	rdlProg              int
	wdlProg              int
	closed               bool
	closeN               int
	broken               bool // harness broke it
	wErr                 error
	failedW              bool // a Write returned an error
	WritesAfterFail      int

	in       []byte // undelivered inbound bytes
	InOff    int    // inbound bytes delivered
	InTotal  int    // inbound bytes enqueued
	chunks   []int
	rfaults  []RFault
	rErr     error
	eofAtEnd bool

	readerParked  bool
	expireNow     bool
	writersParked int
	writeRelease  int
	writeUnparks  int

	Connack ConnackPolicy
	State   *refmqtt.ConnState

	// ReadsWithoutDeadline counts Read calls that had to wait for input
	// with no deadline set.
	ParkNoDeadline []int // inbound offsets at which the reader parked without deadline
	TCPLike        bool
}

func (w *World) newConn() *Conn {
	c := &Conn{w: w, N: len(w.Conns) + 1, fedLimit: -1, Connack: w.ConnackPol}
	c.State = w.Broker.Open(c.N)
	w.Conns = append(w.Conns, c)
	return c
}

// Conn returns the n-th connection (1-based) or nil.
func (w *World) Conn(n int) *Conn {
	w.mu.Lock()
	defer w.mu.Unlock()
	if n < 1 || n > len(w.Conns) {
		return nil
	}
	return w.Conns[n-1]
}

// Current returns the latest connection which is neither closed nor broken.
func (w *World) Current() *Conn {
	w.mu.Lock()
	defer w.mu.Unlock()
	return w.current()
}

func (w *World) current() *Conn {
	if n := len(w.Conns); n != 0 {
		if c := w.Conns[n-1]; !c.closed && !c.broken {
			return c
		}
	}
	return nil
}

// Alive tells whether neither side ended the connection (must hold mu or be quiescent).
func (c *Conn) Alive() bool { return !c.closed && !c.broken }

func (c *Conn) closedErr(op string) error {
	if c.TCPLike {
		return &net.OpError{Op: op, Net: "sim", Err: net.ErrClosed}
	}
	return io.ErrClosedPipe
}

// must hold mu
func (c *Conn) deliverable() bool {
	if c.closed || c.rErr != nil || c.expireNow {
		return true
	}
	if len(c.in) != 0 {
		return true
	}
	for _, f := range c.rfaults {
		if f.Off == c.InOff {
			switch f.Kind {
			case REOF, RReset:
				return true
			case RExpiry:
				return c.rdl
			case RExpiryProgress:
				return c.rdl && c.rdlProg > 0
			}
		}
	}
	return c.eofAtEnd
}

// Read implements net.Conn.
func (c *Conn) Read(p []byte) (int, error) {
	w := c.w
	w.mu.Lock()
	defer w.mu.Unlock()
	defer func() { c.readerParked = false }()
	for {
		if c.closed {
			err := c.closedErr("read")
			w.log(Event{Kind: EvReadErr, Conn: c.N, Err: err})
			return 0, err
		}
		if c.rdlExpired && c.rdl {
			err := &timeoutError{"read"}
			w.log(Event{Kind: EvReadErr, Conn: c.N, Err: err, Str: "the read deadline passed earlier and was not set anew"})
			return 0, err
		}
		if c.expireNow {
			c.expireNow = false
			if c.rdl {
				err := &timeoutError{"read"}
				c.rdlExpired = true
				w.log(Event{Kind: EvReadErr, Conn: c.N, Err: err, Str: "stall"})
				return 0, err
			}
		}
		// events at the current offset
		limit := len(c.in)
		for i := 0; i < len(c.rfaults); i++ {
			f := c.rfaults[i]
			if f.Off < c.InOff {
				// passed (could not fire)
				c.rfaults = append(c.rfaults[:i], c.rfaults[i+1:]...)
				i--
				continue
			}
			if f.Off > c.InOff {
				if d := f.Off - c.InOff; d < limit {
					limit = d
				}
				continue
			}
			fire := false
			switch f.Kind {
			case REOF:
				c.rErr = io.EOF
				fire = true
			case RReset:
				c.rErr = &net.OpError{Op: "read", Net: "sim", Err: syscall.ECONNRESET}
				c.wErr = &net.OpError{Op: "write", Net: "sim", Err: syscall.EPIPE}
				fire = true
			case RExpiry:
				fire = c.rdl
			case RExpiryProgress:
				fire = c.rdl && c.rdlProg > 0
			}
			if !fire {
				if len(c.in) == 0 {
					continue // wait; may fire once a deadline is set
				}
				// the stream moves on; the expiry is void
				c.rfaults = append(c.rfaults[:i], c.rfaults[i+1:]...)
				i--
				continue
			}
			c.rfaults = append(c.rfaults[:i], c.rfaults[i+1:]...)
			if f.Kind == RExpiry || f.Kind == RExpiryProgress {
				err := &timeoutError{"read"}
				c.rdlProg = 0
				c.rdlExpired = true
				w.log(Event{Kind: EvReadErr, Conn: c.N, Err: err, N: c.InOff})
				return 0, err
			}
			if f.Kind == REOF || f.Kind == RReset {
				c.broken = true
				w.Broker.Kill(c.N)
				w.log(Event{Kind: EvConnBreak, Conn: c.N, Str: fmt.Sprintf("scripted at inbound offset %d", c.InOff)})
			}
			break
		}
		if c.rErr != nil {
			w.log(Event{Kind: EvReadErr, Conn: c.N, Err: c.rErr})
			return 0, c.rErr
		}
		if limit > 0 {
			n := limit
			if n > len(p) {
				n = len(p)
			}
			if len(c.chunks) != 0 {
				if c.chunks[0] <= n {
					n = c.chunks[0]
					c.chunks = c.chunks[1:]
				} else {
					c.chunks[0] -= n
				}
			}
			copy(p, c.in[:n])
			data := append([]byte(nil), c.in[:n]...)
			c.in = c.in[n:]
			c.InOff += n
			c.rdlProg += n
			w.log(Event{Kind: EvRead, Conn: c.N, Data: data})
			return n, nil
		}
		if c.eofAtEnd {
			c.rErr = io.EOF
			c.broken = true
			w.Broker.Kill(c.N)
			w.log(Event{Kind: EvConnBreak, Conn: c.N, Str: "EOF at end of input"})
			continue
		}
		// wait for input
		if !c.readerParked {
			c.readerParked = true
			if !c.rdl {
				c.ParkNoDeadline = append(c.ParkNoDeadline, c.InOff)
			}
			w.log(Event{Kind: EvReadPark, Conn: c.N, N: c.InOff})
		}
		w.cond.Wait()
	}
}

// Write implements net.Conn.
func (c *Conn) Write(p []byte) (n int, err error) {
	w := c.w
	w.mu.Lock()
	defer w.mu.Unlock()
	defer func() {
		if err != nil {
			// an expiry after progress is not final: the client may go on
			var te *timeoutError
			if !(errors.As(err, &te) && c.wdlProg > 0) {
				c.failedW = true
			}
		}
		w.log(Event{Kind: EvWriteRet, Conn: c.N, N: n, Err: err})
	}()
	if c.failedW {
		c.WritesAfterFail++
	}
	if len(p) == 0 && !w.PipeLike {
		// A Write of nothing (net.Buffers with an empty element on a
		// connection without writev, e.g. TLS) touches no socket: it fails
		// only when the connection was closed locally. On net.Pipe it is a
		// rendezvous with the reader like any other Write (below).
		if c.closed {
			return 0, c.closedErr("write")
		}
		return 0, nil
	}
	for {
		if c.closed {
			return n, c.closedErr("write")
		}
		if c.wErr != nil {
			return n, c.wErr
		}
		if c.wdlExpired && c.wdl {
			return n, &timeoutError{"write"}
		}
		rest := p[n:]
		// next fault at or after the current offset
		fi := -1
		for i, f := range c.wfaults {
			if f.Off >= len(c.Out) && (fi < 0 || f.Off < c.wfaults[fi].Off) {
				fi = i
			}
		}
		if fi < 0 || c.wfaults[fi].Off >= len(c.Out)+len(rest) && !(len(p) == 0 && c.wfaults[fi].Off == len(c.Out)) {
			// Note: a fault exactly at the end of this write fires on the next one.
			c.accept(rest)
			return len(p), nil
		}
		f := c.wfaults[fi]
		k := f.Off - len(c.Out)
		c.accept(rest[:k])
		n += k
		switch f.Kind {
		case WTimeout, WTimeoutProgress:
			c.wfaults = append(c.wfaults[:fi], c.wfaults[fi+1:]...)
			if !c.wdl {
				continue // cannot expire without deadline
			}
			if f.Kind == WTimeoutProgress && c.wdlProg == 0 {
				continue // void: no progress since the deadline was set
			}
			c.wdlExpired = true
			if c.rdl && c.rdlSetSeq < c.wdlSetSeq {
				c.rdlExpired = true // armed earlier, for the same duration
			}
			return n, &timeoutError{"write"}
		case WReset:
			c.wfaults = append(c.wfaults[:fi], c.wfaults[fi+1:]...)
			c.wErr = &net.OpError{Op: "write", Net: "sim", Err: syscall.ECONNRESET}
			c.rErr = &net.OpError{Op: "read", Net: "sim", Err: syscall.ECONNRESET}
			c.in = nil
			c.broken = true
			w.Broker.Kill(c.N)
			w.log(Event{Kind: EvConnBreak, Conn: c.N, Str: fmt.Sprintf("scripted at outbound offset %d", len(c.Out))})
			return n, c.wErr
		case WPark:
			c.wfaults = append(c.wfaults[:fi], c.wfaults[fi+1:]...)
			c.writersParked++
			w.log(Event{Kind: EvPark, Conn: c.N, Str: "write"})
			for c.writeRelease == 0 && !c.closed && c.wErr == nil && !w.closedWorld {
				w.cond.Wait()
			}
			if c.writeRelease > 0 {
				c.writeRelease--
			}
			c.writersParked--
			c.writeUnparks++
			w.log(Event{Kind: EvUnpark, Conn: c.N, Str: "write"})
		}
	}
}

// must hold mu
func (c *Conn) accept(b []byte) {
	if len(b) == 0 {
		return
	}
	w := c.w
	off := len(c.Out)
	c.Out = append(c.Out, b...)
	c.wdlProg += len(b)
	w.log(Event{Kind: EvWrite, Conn: c.N, Data: append([]byte(nil), b...), N: off})
	feed := b
	if c.fedLimit >= 0 {
		if off >= c.fedLimit {
			return
		}
		if off+len(b) > c.fedLimit {
			feed = b[:c.fedLimit-off]
		}
	}
	w.feed(c, feed)
}

// must hold mu
func (w *World) feed(c *Conn, b []byte) {
	before := len(c.State.Packets)
	w.Broker.Feed(c.N, b)
	for i := before; i < len(c.State.Packets); i++ {
		w.log(Event{Kind: EvPacket, Conn: c.N, N: i, Str: c.State.Packets[i].String()})
	}
	// CONNACK policy
	if before == 0 && len(c.State.Packets) > 0 && c.State.Connect != nil {
		switch c.Connack.Kind {
		case ConnackAuto:
			w.releaseConnack(c, c.Connack.Code, c.Connack.Extra)
		case ConnackRaw:
			c.dropOwed(refmqtt.CONNACK)
			c.enqueue(c.Connack.Raw)
		case ConnackEOF:
			c.dropOwed(refmqtt.CONNACK)
			c.eofAtEnd = true
			w.cond.Broadcast()
		}
	}
	if w.AutoAck && c.State.Accepted {
		for len(c.State.Owed) != 0 {
			w.releaseOwed(c, 0)
		}
	}
}

func (c *Conn) dropOwed(kind byte) {
	for i, o := range c.State.Owed {
		if o.Kind == kind {
			c.State.TakeOwed(i)
			return
		}
	}
}

// must hold mu. Code 0 accepts.
func (w *World) releaseConnack(c *Conn, code byte, extra []byte) {
	c.dropOwed(refmqtt.CONNACK)
	if code != 0 {
		c.enqueue([]byte{0x20, 2, 0, code})
		return
	}
	sp := w.Broker.Accept(c.State)
	flags := byte(0)
	if sp {
		flags = 1
	}
	c.enqueue([]byte{0x20, 2, flags, 0})
	if len(extra) != 0 {
		c.enqueue(extra)
	}
	if w.AutoResend && sp {
		w.retransmit(c)
	}
}

// must hold mu
func (w *World) retransmit(c *Conn) {
	for _, m := range w.Broker.Retransmissions() {
		switch m.Stage {
		case refmqtt.StagePublish:
			c.enqueue(w.Broker.PublishBytes(m, c.N))
		case refmqtt.StageRecvd, refmqtt.StageRelease:
			w.Broker.MarkRelSent(m.ID)
			c.enqueue(refmqtt.Ack(refmqtt.PUBREL, m.ID))
		}
	}
}

// must hold mu
func (w *World) releaseOwed(c *Conn, i int) refmqtt.Owed {
	o := c.State.TakeOwed(i)
	if o.Kind == refmqtt.CONNACK {
		w.releaseConnack(c, 0, nil)
		return o
	}
	if o.Kind == refmqtt.PUBREL {
		w.Broker.MarkRelSent(o.ID)
	}
	c.enqueue(o.Bytes())
	return o
}

// ReleaseConnack answers a held CONNECT.
func (c *Conn) ReleaseConnack(code byte) {
	c.w.mu.Lock()
	c.w.releaseConnack(c, code, nil)
	c.w.mu.Unlock()
}

// Owed lists what the broker owes on this connection.
func (c *Conn) Owed() []refmqtt.Owed {
	c.w.mu.Lock()
	defer c.w.mu.Unlock()
	return append([]refmqtt.Owed(nil), c.State.Owed...)
}

// Release sends the i-th owed response.
func (c *Conn) Release(i int) (o refmqtt.Owed, ok bool) {
	c.w.mu.Lock()
	defer c.w.mu.Unlock()
	if i >= len(c.State.Owed) || !c.Alive() {
		return o, false
	}
	return c.w.releaseOwed(c, i), true
}

// DropOwed forgets the i-th owed response (a lost or withheld acknowledgement
// is modelled by never releasing; dropping is for SUBACK overrides).
func (c *Conn) SetOwedCodes(i int, codes []byte) {
	c.w.mu.Lock()
	defer c.w.mu.Unlock()
	if i < len(c.State.Owed) {
		c.State.Owed[i].Codes = codes
	}
}

// must hold mu
func (c *Conn) enqueue(b []byte) {
	if len(b) == 0 {
		return
	}
	c.in = append(c.in, b...)
	c.InTotal += len(b)
	c.w.log(Event{Kind: EvBrokerSend, Conn: c.N, Data: append([]byte(nil), b...), N: c.InTotal - len(b)})
	c.w.cond.Broadcast()
}

// Send enqueues bytes from the broker to the client.
func (c *Conn) Send(b []byte) {
	c.w.mu.Lock()
	c.enqueue(b)
	c.w.mu.Unlock()
}

// Fragment scripts the sizes of the next reads.
func (c *Conn) Fragment(chunks []int) {
	c.w.mu.Lock()
	c.chunks = append(c.chunks, chunks...)
	c.w.mu.Unlock()
}

// ArmRead arms an inbound event at an absolute inbound offset.
func (c *Conn) ArmRead(f RFault) {
	c.w.mu.Lock()
	c.rfaults = append(c.rfaults, f)
	c.w.cond.Broadcast()
	c.w.mu.Unlock()
}

// ArmWrite arms an outbound fault at an absolute outbound offset.
func (c *Conn) ArmWrite(f WFault) {
	c.w.mu.Lock()
	c.wfaults = append(c.wfaults, f)
	c.w.mu.Unlock()
}

// OutLen returns the number of bytes accepted from the client.
func (c *Conn) OutLen() int {
	c.w.mu.Lock()
	defer c.w.mu.Unlock()
	return len(c.Out)
}

// InEnqueued returns the number of bytes enqueued for the client so far.
func (c *Conn) InEnqueued() int {
	c.w.mu.Lock()
	defer c.w.mu.Unlock()
	return c.InTotal
}

// Blackhole makes the broker blind for outbound bytes from offset off on.
// The connection has to be broken later on.
func (c *Conn) Blackhole(off int) {
	c.w.mu.Lock()
	if c.fedLimit < 0 || off < c.fedLimit {
		c.fedLimit = off
	}
	c.w.mu.Unlock()
}

// Blackholed tells whether the broker stopped seeing bytes.
func (c *Conn) Blackholed() bool {
	c.w.mu.Lock()
	defer c.w.mu.Unlock()
	return c.fedLimit >= 0
}

// Stall makes a parked (or the next parking) Read expire, given a deadline.
func (c *Conn) Stall() {
	c.w.mu.Lock()
	c.expireNow = true
	c.w.cond.Broadcast()
	c.w.mu.Unlock()
}

// Break ends the connection from the broker's side. With graceful the client
// first gets what is queued already, then EOF; otherwise a reset at once.
func (c *Conn) Break(graceful bool) {
	w := c.w
	w.mu.Lock()
	defer w.mu.Unlock()
	if c.closed || c.broken {
		return
	}
	c.broken = true
	if graceful {
		c.eofAtEnd = true
		c.wErr = &net.OpError{Op: "write", Net: "sim", Err: syscall.EPIPE}
		if w.PipeLike {
			// net.Pipe: a Write after the remote end closed fails with
			// io.ErrClosedPipe, the same error a local Close causes
			c.wErr = io.ErrClosedPipe
		}
		w.log(Event{Kind: EvConnBreak, Conn: c.N, Str: "EOF"})
	} else {
		c.in = nil
		c.rErr = &net.OpError{Op: "read", Net: "sim", Err: syscall.ECONNRESET}
		c.wErr = &net.OpError{Op: "write", Net: "sim", Err: syscall.ECONNRESET}
		w.log(Event{Kind: EvConnBreak, Conn: c.N, Str: "reset"})
	}
	w.Broker.Kill(c.N)
	w.cond.Broadcast()
}

// WritersParked tells how many Write calls are parked.
func (c *Conn) WritersParked() int {
	c.w.mu.Lock()
	defer c.w.mu.Unlock()
	return c.writersParked
}

// ReleaseWrite lets one parked Write continue.
func (c *Conn) ReleaseWrite() bool {
	w := c.w
	w.mu.Lock()
	if c.writersParked == 0 {
		w.mu.Unlock()
		return false
	}
	before := c.writeUnparks
	c.writeRelease++
	w.cond.Broadcast()
	w.mu.Unlock()
	w.Await(func() bool { return c.writeUnparks > before })
	return true
}

// Close implements net.Conn.
func (c *Conn) Close() error {
	w := c.w
	w.mu.Lock()
	defer w.mu.Unlock()
	c.closeN++
	if c.parkClose && !c.closed {
		// a Close which takes its time (a TLS close_notify to a slow peer)
		c.parkClose = false
		c.closeParked = true
		w.log(Event{Kind: EvPark, Conn: c.N, Str: "close"})
		for !c.closeRelease && !w.closedWorld {
			w.cond.Wait()
		}
		c.closeParked = false
		w.log(Event{Kind: EvUnpark, Conn: c.N, Str: "close"})
	}
	if c.closed {
		if c.TCPLike {
			return c.closedErr("close")
		}
		return nil
	}
	c.closed = true
	w.Broker.Kill(c.N)
	w.log(Event{Kind: EvConnClose, Conn: c.N})
	w.cond.Broadcast()
	// (closing can fail: a TLS connection sends its close_notify alert, and
	// the peer may be gone by then; the connection is closed all the same)
	return c.CloseErr
}

// Closed tells whether the client closed the connection.
func (c *Conn) Closed() bool {
	c.w.mu.Lock()
	defer c.w.mu.Unlock()
	return c.closed
}

// Broken tells whether the harness ended the connection.
func (c *Conn) Broken() bool {
	c.w.mu.Lock()
	defer c.w.mu.Unlock()
	return c.broken
}

type addr struct{}

func (addr) Network() string { return "sim" }
func (addr) String() string  { return "sim" }

// LocalAddr implements net.Conn.
func (c *Conn) LocalAddr() net.Addr { return addr{} }

// RemoteAddr implements net.Conn.
func (c *Conn) RemoteAddr() net.Addr { return addr{} }

// SetDeadline implements net.Conn.
func (c *Conn) SetDeadline(t time.Time) error {
	c.SetReadDeadline(t)
	return c.SetWriteDeadline(t)
}

// SetReadDeadline implements net.Conn.
func (c *Conn) SetReadDeadline(t time.Time) error {
	w := c.w
	w.mu.Lock()
	defer w.mu.Unlock()
	if c.closed {
		return c.closedErr("set")
	}
	c.rdl = !t.IsZero()
	c.rdlProg = 0
	c.rdlExpired = false
	c.rdlSetSeq = len(w.Log)
	n := 0
	if c.rdl {
		n = 1
	}
	w.log(Event{Kind: EvSetRDL, Conn: c.N, N: n})
	return nil
}

// SetWriteDeadline implements net.Conn.
func (c *Conn) SetWriteDeadline(t time.Time) error {
	w := c.w
	w.mu.Lock()
	defer w.mu.Unlock()
	if c.closed {
		return c.closedErr("set")
	}
	c.wdl = !t.IsZero()
	c.wdlProg = 0
	c.wdlExpired = false
	c.wdlSetSeq = len(w.Log)
	n := 0
	if c.wdl {
		n = 1
	}
	w.log(Event{Kind: EvSetWDL, Conn: c.N, N: n})
	return nil
}

var _ net.Conn = (*Conn)(nil)
var _ = errors.New

// ParkClose makes the next Close wait until ReleaseClose.
func (c *Conn) ParkClose() {
	c.w.mu.Lock()
	c.parkClose = true
	c.w.mu.Unlock()
}

// CloseParked tells whether a Close is waiting.
func (c *Conn) CloseParked() bool {
	c.w.mu.Lock()
	defer c.w.mu.Unlock()
	return c.closeParked
}

// ReleaseClose lets the waiting (or the next) Close proceed.
func (c *Conn) ReleaseClose() {
	c.w.mu.Lock()
	c.closeRelease = true
	c.parkClose = false
	c.w.cond.Broadcast()
	c.w.mu.Unlock()
}
