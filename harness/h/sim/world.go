// Package sim simulates everything an mqtt.Client can touch: the network
// (Dialer and net.Conn), the Persistence and the application. All observable
// behaviour ends up in one totally ordered event log; oracles are functions
// of that log and of the reference broker's state.
package sim

import (
	"context"
	"errors"
	"fmt"
	"net"
	"os"
	"runtime"
	"runtime/debug"
	"strconv"
	"strings"
	"sync"
	"sync/atomic"
	"time"

	"github.com/pascaldekloe/mqtt"
	"verifh/refmqtt"
)

// Kind of an event.
type Kind uint8

// Event kinds.
const (
	EvDial       Kind = iota + 1 // Dialer invoked
	EvDialRet                    // Dialer returned (Conn or Err)
	EvWrite                      // bytes accepted from the client (Conn, Data)
	EvWriteRet                   // Write returned (Conn, N, Err)
	EvRead                       // bytes delivered to the client (Conn, Data)
	EvReadPark                   // reader waits for input (Conn)
	EvReadErr                    // Read returned an error (Conn, Err)
	EvSetWDL                     // write deadline (Conn, N=1 set / 0 cleared)
	EvSetRDL                     // read deadline
	EvConnClose                  // client closed the connection
	EvConnBreak                  // harness broke the connection (Str = how)
	EvStore                      // Persistence operation (N = index in Store.Ops)
	EvAppStart                   // application invoked ReadSlices
	EvAppRet                     // ReadSlices returned (N = index in App.Results)
	EvCallStart                  // request goroutine started (Call)
	EvCallRet                    // request returned (Call)
	EvPark                       // goroutine parked at gate (Str)
	EvUnpark                     // gate released (Str)
	EvBrokerSend                 // broker enqueued bytes for the client (Conn, Data)
	EvPacket                     // broker completed reception of a packet (Conn, N = index in ConnState.Packets)
	EvYield                      // a traced hook point was passed (Str)
	EvNote
)

var kindNames = map[Kind]string{EvDial: "dial", EvDialRet: "dial-ret", EvWrite: "write", EvWriteRet: "write-ret",
	EvRead: "read", EvReadPark: "read-park", EvReadErr: "read-err", EvSetWDL: "set-wdl", EvSetRDL: "set-rdl",
	EvConnClose: "conn-close", EvConnBreak: "conn-break", EvStore: "store", EvAppStart: "app-start", EvAppRet: "app-ret",
	EvCallStart: "call-start", EvCallRet: "call-ret", EvPark: "park", EvUnpark: "unpark", EvBrokerSend: "broker-send",
	EvPacket: "packet", EvNote: "note", EvYield: "yield"}

// Event is one entry of the log.
type Event struct {
	Seq  int
	Kind Kind
	Conn int
	Data []byte
	N    int
	Err  error
	Call int
	Str  string
}

func (e Event) String() string {
	s := fmt.Sprintf("%5d %-11s", e.Seq, kindNames[e.Kind])
	if e.Conn != 0 {
		s += fmt.Sprintf(" conn=%d", e.Conn)
	}
	if e.Call != 0 {
		s += fmt.Sprintf(" call=%d", e.Call)
	}
	switch e.Kind {
	case EvWriteRet, EvSetWDL, EvSetRDL, EvStore, EvAppRet, EvPacket:
		s += fmt.Sprintf(" n=%d", e.N)
	}
	if e.Str != "" {
		s += " " + e.Str
	}
	if e.Data != nil {
		d := e.Data
		if len(d) > 24 {
			s += fmt.Sprintf(" [%d] %x…", len(d), d[:24])
		} else {
			s += fmt.Sprintf(" [%d] %x", len(d), d)
		}
	}
	if e.Err != nil {
		s += " err=" + e.Err.Error()
	}
	return s
}

// TB is what the world needs from the test framework.
type TB interface {
	Fatalf(format string, args ...interface{})
	Logf(format string, args ...interface{})
}

// Options configure a world.
type Options struct {
	ClientID       string
	Config         mqtt.Config // Dialer gets installed by the world
	Adopt          bool        // AdoptSession instead of InitSession
	Store          map[uint][]byte
	Broker         *refmqtt.Broker
	Prop           string // property under test, for messages
	NoAutoConnack  bool
	KeepFullEvents bool
	AdoptFailNext  []byte // Persistence operation kinds ('S', 'D', 'L', 'l') which fail once during AdoptSession
	// StoreFlavour: "" or "memory" (the double's own map), "volatile" (the
	// library's in-memory Persistence behind the recording double),
	// "filesystem" (mqtt.FileSystem on a scratch directory behind it)
	StoreFlavour string
	// FSMutate runs on the scratch directory of a filesystem-flavoured store
	// after the initial content was written and before the session is made
	// (stray entries next to the records)
	FSMutate func(dir string)
	// PreAdoptLimits: AdoptSession is first invoked with AtLeastOnceMax and
	// ExactlyOnceMax set to this (a misconfigured restart), then with Config.
	// Warnings of both invocations are kept; PreAdoptFatal has the first outcome.
	PreAdoptLimits int
	// AdoptFailNth: the operations of AdoptFailNext fail at their n-th occurrence instead of the first
	AdoptFailNth int
	// PreAdoptFailLoad: AdoptSession is first invoked with the n-th Load
	// failing (a transient error of the Persistence), then as usual. A client
	// it may return is closed at once. Warnings of both invocations are kept.
	PreAdoptFailLoad int
}

// World is one process generation of a client together with its environment.
type World struct {
	mu   sync.Mutex
	cond *sync.Cond
	T    TB
	Prop string

	Log    []Event
	Script []string // canonical rendering of the generated actions

	Client          *mqtt.Client
	Warn            []error
	Fatal           error
	AdoptPanic      string // a panic inside AdoptSession (recovered), with stack
	PreAdoptFatal   error  // outcome of the invocation with PreAdoptLimits
	PreAdoptRan     bool
	AdoptHung       bool // AdoptSession did not return (hang oracle)
	AdoptHungLimits [2]int
	storeDir        string // scratch directory of a filesystem-flavoured store
	// PlainRecords: the stored values are bare packets (session made like
	// VolatileSession does, without the sequence number and checksum trailer)
	PlainRecords bool

	Broker *refmqtt.Broker
	Store  *Store
	Conns  []*Conn
	App    *App
	Calls  []*Call

	dialScript  []DialOutcome
	dialDefault DialOutcome
	dialParked  int
	dialRelease int
	dialUnparks int
	Dials       int
	gates       map[string]*gate
	AutoAck     bool // release every owed response at once (drain mode)
	AutoResend  bool // broker retransmits at once after accepting a connection
	closedWorld bool
	lastEvent   time.Time
	panics      []string
	GoBase      int
	HangQuiet   time.Duration
	failed      bool
	ConnackPol  ConnackPolicy // default for new connections
	clientID    string
	shut        bool
	// PipeLike makes connections behave like net.Pipe where that differs from TCP.
	PipeLike     bool
	NextConnOpts func(c *Conn)
}

// Violation is the panic value used to leave a case which failed an oracle.
type Violation struct{ Msg string }

// failedOnce is set by the first violation in this process. The executions
// which follow are the library's shrinking attempts: they judge a hang after a
// much shorter quiet period, so that minimising a wedged case stays affordable.
var failedOnce atomic.Bool

func (w *World) hangQuiet() time.Duration {
	if failedOnce.Load() && w.HangQuiet > 1500*time.Millisecond {
		return 1500 * time.Millisecond
	}
	return w.HangQuiet
}

// Failf reports a violation of the property under test: it prints the marker
// line the driver looks for, dumps the tail of the event log and fails the case.
func (w *World) Failf(format string, args ...interface{}) {
	msg := fmt.Sprintf(format, args...)
	w.failed = true
	failedOnce.Store(true)
	stacks := ""
	if strings.Contains(msg, "did not happen") || strings.Contains(msg, "does not hold") || strings.Contains(msg, "not returned") {
		// a call which does not come back: where the client's goroutines stand
		stacks = "\n--- goroutines inside the client ---\n" + clientStacks()
	}
	w.T.Fatalf("VERIF-VIOLATION property=%s: %s\n--- script ---\n%s\n--- event log (tail) ---\n%s%s",
		w.Prop, msg, strings.Join(w.Script, "\n"), w.DumpTail(120), stacks)
}

// clientStacks renders the stacks of the goroutines which are inside the
// library (diagnostics for hangs; no part of any verdict).
func clientStacks() string {
	buf := make([]byte, 1<<20)
	buf = buf[:runtime.Stack(buf, true)]
	var b strings.Builder
	for _, g := range strings.Split(string(buf), "\n\n") {
		if strings.Contains(g, "pascaldekloe/mqtt.") {
			if len(g) > 1500 {
				g = g[:1500] + " …"
			}
			b.WriteString(g)
			b.WriteString("\n\n")
		}
		if b.Len() > 12000 {
			break
		}
	}
	return b.String()
}

// DumpTail renders the last n events.
func (w *World) DumpTail(n int) string {
	w.mu.Lock()
	defer w.mu.Unlock()
	var b strings.Builder
	start := len(w.Log) - n
	if start < 0 {
		start = 0
	}
	for _, e := range w.Log[start:] {
		b.WriteString(e.String())
		b.WriteByte('\n')
	}
	return b.String()
}

// must hold mu
func (w *World) log(e Event) int {
	e.Seq = len(w.Log)
	w.Log = append(w.Log, e)
	w.lastEvent = time.Now()
	w.cond.Broadcast()
	return e.Seq
}

// Note adds a free-text event.
func (w *World) Note(format string, args ...interface{}) {
	w.mu.Lock()
	w.log(Event{Kind: EvNote, Str: fmt.Sprintf(format, args...)})
	w.mu.Unlock()
}

// Act records the canonical rendering of a generated action.
func (w *World) Act(format string, args ...interface{}) {
	s := fmt.Sprintf(format, args...)
	w.Script = append(w.Script, s)
	w.Note("ACTION %s", s)
}

// Seq returns the current length of the log.
func (w *World) Seq() int {
	w.mu.Lock()
	defer w.mu.Unlock()
	return len(w.Log)
}

// Events returns a snapshot of the log.
func (w *World) Events() []Event {
	w.mu.Lock()
	defer w.mu.Unlock()
	return w.Log[:len(w.Log):len(w.Log)]
}

var hangQuietDefault = func() time.Duration {
	if s := os.Getenv("VERIF_HANG_S"); s != "" {
		if n, err := strconv.Atoi(s); err == nil && n > 0 {
			return time.Duration(n) * time.Second
		}
	}
	return 8 * time.Second
}()

// New builds a world and its client.
func New(t TB, o Options) *World {
	w := &World{T: t, Prop: o.Prop, gates: map[string]*gate{}, HangQuiet: hangQuietDefault, AutoResend: true}
	w.cond = sync.NewCond(&w.mu)
	w.lastEvent = time.Now()
	w.Broker = o.Broker
	if w.Broker == nil {
		w.Broker = refmqtt.NewBroker()
	}
	var inner mqtt.Persistence
	flavour := o.StoreFlavour
	switch flavour {
	case "volatile", "volatile-plain":
		inner = mqtt.VerifNewVolatile()
	case "filesystem":
		dir, err := os.MkdirTemp(os.Getenv("VERIF_SCRATCH"), "simfs-")
		if err != nil {
			panic("VERIF-INFRA: " + err.Error())
		}
		w.storeDir = dir
		inner = mqtt.FileSystem(dir)
	}
	if inner == nil {
		flavour = "memory"
	}
	w.Store = newStore(w, o.Store, inner, flavour)
	if w.storeDir != "" && o.FSMutate != nil {
		o.FSMutate(w.storeDir)
	}
	w.dialDefault = DialOutcome{Kind: DialOK}
	if o.NoAutoConnack {
		w.ConnackPol = ConnackPolicy{Kind: ConnackHold}
	}
	w.GoBase = runtime.NumGoroutine()
	w.clientID = o.ClientID

	cfg := o.Config
	cfg.Dialer = w.dialer
	mqtt.VerifSetYield(w.yield)
	if o.Adopt {
		for _, kind := range o.AdoptFailNext {
			if o.AdoptFailNth > 1 {
				w.Store.FailNth(kind, o.AdoptFailNth)
				continue
			}
			w.Store.FailNext(kind)
		}
		var preWarn []error
		if o.PreAdoptLimits > 0 {
			func() {
				defer func() {
					if p := recover(); p != nil {
						w.AdoptPanic = fmt.Sprintf("%v\n%s", p, debug.Stack())
					}
				}()
				low := cfg
				low.AtLeastOnceMax, low.ExactlyOnceMax = o.PreAdoptLimits, o.PreAdoptLimits
				var cl *mqtt.Client
				cl, preWarn, w.PreAdoptFatal = w.adoptWatched(&low)
				w.PreAdoptRan = true
				if cl != nil {
					cl.Close() // (the limits sufficed after all)
				}
			}()
		}
		if o.PreAdoptFailLoad > 0 {
			w.Store.FailNth('L', o.PreAdoptFailLoad)
			cl, warn, fatal := w.adoptWatched(&cfg)
			w.Store.ClearFaults()
			w.PreAdoptRan, w.PreAdoptFatal = true, fatal
			preWarn = append(preWarn, warn...)
			if cl != nil {
				cl.Close()
			}
		}
		func() {
			defer func() {
				if p := recover(); p != nil {
					w.AdoptPanic = fmt.Sprintf("%v\n%s", p, debug.Stack())
					w.Client, w.Fatal = nil, fmt.Errorf("AdoptSession panicked: %v", p)
				}
			}()
			if !w.AdoptHung {
				w.Client, w.Warn, w.Fatal = w.adoptWatched(&cfg)
			}
		}()
		w.Warn = append(preWarn[:len(preWarn):len(preWarn)], w.Warn...)
		w.Store.ClearFaults()
	} else if flavour == "volatile-plain" {
		// as VolatileSession: the library's map without the checksum layer
		w.Client, w.Fatal = mqtt.VerifInitSessionPlain(o.ClientID, w.Store, &cfg)
		w.PlainRecords = w.Fatal == nil
		if w.Fatal != nil {
			w.Store.Flavour = "volatile"
			w.Client, w.Fatal = mqtt.InitSession(o.ClientID, w.Store, &cfg)
		}
	} else {
		w.Client, w.Fatal = mqtt.InitSession(o.ClientID, w.Store, &cfg)
	}
	w.App = newApp(w)
	return w
}

// adoptWatched runs AdoptSession under the hang oracle: it must return; with
// no Persistence operation for the quiet period it never will (AdoptHung).
func (w *World) adoptWatched(cfg *mqtt.Config) (cl *mqtt.Client, warn []error, fatal error) {
	type result struct {
		cl    *mqtt.Client
		warn  []error
		fatal error
		panic interface{}
		stack []byte
	}
	w.mu.Lock()
	w.lastEvent = time.Now()
	w.mu.Unlock()
	done := make(chan result, 1)
	go func() {
		var r result
		defer func() {
			if p := recover(); p != nil {
				r.panic, r.stack = p, debug.Stack()
			}
			done <- r
		}()
		r.cl, r.warn, r.fatal = mqtt.AdoptSession(w.Store, cfg)
	}()
	quiet := 4 * time.Second
	for {
		select {
		case r := <-done:
			if r.panic != nil {
				w.AdoptPanic = fmt.Sprintf("%v\n%s", r.panic, r.stack)
				return nil, nil, fmt.Errorf("AdoptSession panicked: %v", r.panic)
			}
			return r.cl, r.warn, r.fatal
		case <-time.After(100 * time.Millisecond):
			w.mu.Lock()
			idle := time.Since(w.lastEvent)
			w.mu.Unlock()
			if idle > quiet {
				w.AdoptHung = true
				w.AdoptHungLimits = [2]int{cfg.AtLeastOnceMax, cfg.ExactlyOnceMax}
				return nil, nil, errors.New("AdoptSession did not return")
			}
		}
	}
}

// ---- waiting ----

// ErrHang is returned by Await when nothing happened for HangQuiet.
var ErrHang = errors.New("sim: hang")

// ErrSlow is returned by Await when the total budget ran out with events flowing.
var ErrSlow = errors.New("sim: inconclusive, time budget exhausted")

// Await polls pred (under the world lock) until it holds. It gives up with
// ErrHang once the event log has been quiet for HangQuiet.
func (w *World) Await(pred func() bool) error {
	start := time.Now()
	for i := 0; ; i++ {
		w.mu.Lock()
		ok := pred()
		last := w.lastEvent
		w.mu.Unlock()
		if ok {
			return nil
		}
		now := time.Now()
		if last.Before(start) {
			last = start
		}
		if now.Sub(last) > w.hangQuiet() {
			return ErrHang
		}
		if now.Sub(start) > 10*time.Minute {
			return ErrSlow
		}
		switch {
		case i < 50:
			runtime.Gosched()
		case i < 200:
			time.Sleep(20 * time.Microsecond)
		default:
			time.Sleep(200 * time.Microsecond)
		}
	}
}

// MustAwait is Await with a violation on hang. Inconclusive waits abort the
// case through Skipf-like infrastructure failure.
func (w *World) MustAwait(what string, pred func() bool) {
	switch err := w.Await(pred); err {
	case nil:
	case ErrHang:
		w.hangDump(what)
		w.Failf("hang: %s did not happen; no event for %v", what, w.hangQuiet())
	default:
		w.T.Fatalf("VERIF-INFRA inconclusive wait for %s: %v", what, err)
	}
}

func (w *World) hangDump(what string) {
	buf := make([]byte, 1<<20)
	buf = buf[:runtime.Stack(buf, true)]
	if dir := os.Getenv("VERIF_DUMP_DIR"); dir != "" {
		name := fmt.Sprintf("%s/hang-%d-%d.txt", dir, os.Getpid(), time.Now().UnixNano())
		os.WriteFile(name, append([]byte("awaited: "+what+"\n\n"), buf...), 0o644)
	}
}

// AwaitQuiet waits until pred holds or the log has been quiet for d.
// It reports whether pred held.
func (w *World) AwaitQuiet(d time.Duration, pred func() bool) bool {
	start := time.Now()
	for i := 0; ; i++ {
		w.mu.Lock()
		ok := pred()
		last := w.lastEvent
		w.mu.Unlock()
		if ok {
			return true
		}
		now := time.Now()
		if last.Before(start) {
			last = start
		}
		if now.Sub(last) > d {
			return false
		}
		if i < 50 {
			runtime.Gosched()
		} else {
			time.Sleep(20 * time.Microsecond)
		}
	}
}

// Blocked tells whether some goroutine is parked where only the harness can
// release it (must hold mu).
func (w *World) blocked() bool {
	if w.dialParked > 0 || w.Store.parked > 0 {
		return true
	}
	for _, g := range w.gates {
		if g.parked > 0 {
			return true
		}
	}
	for _, c := range w.Conns {
		if c.writersParked > 0 {
			return true
		}
	}
	return false
}

// readerSettled: the application is not inside ReadSlices, or the read
// routine waits for input, or somebody is parked at a gate (must hold mu).
func (w *World) readerSettled() bool {
	if !w.App.inCall {
		return true
	}
	for _, c := range w.Conns {
		if c.readerParked && !c.deliverable() {
			return true
		}
	}
	return w.blocked()
}

// SettleReader waits for the read routine to come to rest. A hang is a
// violation only when hangIsViolation; otherwise the case is abandoned.
func (w *World) SettleReader(what string) {
	w.MustAwait("read routine at rest after "+what, w.readerSettled)
}

// ReaderParkedOn returns the connection the read routine waits on, if any.
func (w *World) ReaderParkedOn() *Conn {
	w.mu.Lock()
	defer w.mu.Unlock()
	for _, c := range w.Conns {
		if c.readerParked {
			return c
		}
	}
	return nil
}

// ---- gates (verifYield hook points) ----

type gate struct {
	armed   int
	parked  int
	release int
	hits    int
	unparks int
}

func (w *World) gate(name string) *gate {
	g := w.gates[name]
	if g == nil {
		g = &gate{}
		w.gates[name] = g
	}
	return g
}

func (w *World) yield(point string) {
	w.mu.Lock()
	defer w.mu.Unlock()
	if w.closedWorld {
		return
	}
	g := w.gate(point)
	g.hits++
	if tracedPoints[point] {
		w.log(Event{Kind: EvYield, Str: point})
	}
	if g.armed == 0 {
		return
	}
	g.armed--
	g.parked++
	w.log(Event{Kind: EvPark, Str: point})
	for g.release == 0 && !w.closedWorld {
		w.cond.Wait()
	}
	if g.release > 0 {
		g.release--
	}
	g.parked--
	g.unparks++
	w.log(Event{Kind: EvUnpark, Str: point})
}

// tracedPoints are logged whenever they are passed.
var tracedPoints = map[string]bool{"connect.release": true, "offline.enter": true}

// ArmGate makes the next goroutine which passes the hook point park there.
func (w *World) ArmGate(point string) {
	w.mu.Lock()
	w.gate(point).armed++
	w.mu.Unlock()
}

// DisarmGate undoes pending ArmGate calls.
func (w *World) DisarmGate(point string) {
	w.mu.Lock()
	w.gate(point).armed = 0
	w.mu.Unlock()
}

// GateParked returns the number of goroutines parked at the point.
func (w *World) GateParked(point string) int {
	w.mu.Lock()
	defer w.mu.Unlock()
	return w.gate(point).parked
}

// GateHits returns how often the point was passed.
func (w *World) GateHits(point string) int {
	w.mu.Lock()
	defer w.mu.Unlock()
	return w.gate(point).hits
}

// ReleaseGate lets one parked goroutine continue and waits for it to leave.
func (w *World) ReleaseGate(point string) bool {
	w.mu.Lock()
	g := w.gate(point)
	if g.parked == 0 {
		w.mu.Unlock()
		return false
	}
	before := g.unparks
	g.release++
	w.cond.Broadcast()
	w.mu.Unlock()
	w.Await(func() bool { return g.unparks > before })
	return true
}

// ParkedGates lists the points with parked goroutines.
func (w *World) ParkedGates() []string {
	w.mu.Lock()
	defer w.mu.Unlock()
	var l []string
	for name, g := range w.gates {
		for i := 0; i < g.parked; i++ {
			l = append(l, name)
		}
	}
	sortStrings(l)
	return l
}

func sortStrings(l []string) {
	for i := 1; i < len(l); i++ {
		for j := i; j > 0 && l[j] < l[j-1]; j-- {
			l[j], l[j-1] = l[j-1], l[j]
		}
	}
}

// ---- dialer ----

// Dial outcomes.
const (
	DialOK = iota
	DialErr
	DialPark    // wait until released (then OK) or until the context ends
	DialParkErr // wait until released, then fail
)

// DialOutcome scripts one Dialer invocation.
type DialOutcome struct {
	Kind    int
	Deaf    bool           // a parked invocation ignores the end of its context (a Dialer need not honour it in time)
	Err     error          // the error of a failing outcome (nil: a refused connection)
	Connack *ConnackPolicy // nil = world default
	WFaults []WFault       // write faults armed on the connection this outcome makes
}

// ScriptDial appends outcomes for the next Dialer invocations.
func (w *World) ScriptDial(o ...DialOutcome) {
	w.mu.Lock()
	w.dialScript = append(w.dialScript, o...)
	w.mu.Unlock()
}

// ClearDialScript removes pending outcomes; dials succeed again.
func (w *World) ClearDialScript() {
	w.mu.Lock()
	w.dialScript = nil
	w.mu.Unlock()
}

// DialParked tells how many Dialer invocations are parked.
func (w *World) DialParked() int {
	w.mu.Lock()
	defer w.mu.Unlock()
	return w.dialParked
}

// ReleaseDial lets one parked Dialer invocation succeed.
func (w *World) ReleaseDial() bool {
	w.mu.Lock()
	if w.dialParked == 0 {
		w.mu.Unlock()
		return false
	}
	before := w.dialUnparks
	w.dialRelease++
	w.cond.Broadcast()
	w.mu.Unlock()
	w.Await(func() bool { return w.dialUnparks > before })
	return true
}

var errDial = &net.OpError{Op: "dial", Net: "sim", Err: errors.New("connection refused by simulation")}

func (w *World) dialer(ctx context.Context) (net.Conn, error) {
	w.mu.Lock()
	defer w.mu.Unlock()
	w.Dials++
	w.log(Event{Kind: EvDial, N: w.Dials})
	o := w.dialDefault
	if len(w.dialScript) != 0 {
		o = w.dialScript[0]
		w.dialScript = w.dialScript[1:]
	}
	if o.Kind == DialPark || o.Kind == DialParkErr {
		w.dialParked++
		w.log(Event{Kind: EvPark, Str: "dial"})
		stop := context.AfterFunc(ctx, func() {
			w.mu.Lock()
			w.cond.Broadcast()
			w.mu.Unlock()
		})
		for w.dialRelease == 0 && (o.Deaf || ctx.Err() == nil) && !w.closedWorld {
			w.cond.Wait()
		}
		stop()
		w.dialParked--
		w.dialUnparks++
		w.log(Event{Kind: EvUnpark, Str: "dial"})
		if w.dialRelease > 0 {
			w.dialRelease--
		} else if err := ctx.Err(); err != nil {
			w.log(Event{Kind: EvDialRet, Err: err})
			return nil, err
		}
	}
	if o.Kind == DialErr || o.Kind == DialParkErr {
		err := error(errDial)
		if o.Err != nil {
			err = o.Err
		}
		w.log(Event{Kind: EvDialRet, Err: err})
		return nil, err
	}
	c := w.newConn()
	if o.Connack != nil {
		c.Connack = *o.Connack
	}
	for _, f := range o.WFaults {
		c.ArmWriteLocked(f)
	}
	if w.NextConnOpts != nil {
		w.NextConnOpts(c)
	}
	w.log(Event{Kind: EvDialRet, Conn: c.N})
	return c, nil
}

// ---- shutdown ----

// Shutdown ends the case: gates open, connections die, the client closes,
// the application reads until ErrClosed. Best effort; it reports whether
// everything came to an end within the budget.
func (w *World) Shutdown(budget time.Duration) (clean bool) {
	if w.Client == nil || w.shut {
		return true
	}
	w.shut = true
	if w.storeDir != "" {
		defer os.RemoveAll(w.storeDir)
	}
	if failedOnce.Load() && budget > time.Second {
		budget = time.Second
	}
	w.mu.Lock()
	w.closedWorld = true // gates and parks open for good
	w.cond.Broadcast()
	w.mu.Unlock()

	closed := make(chan struct{})
	go func() {
		defer close(closed)
		defer func() { recover() }()
		w.Client.Close()
	}()
	deadline := time.Now().Add(budget)
	select {
	case <-closed:
	case <-time.After(budget):
		return false
	}
	// read until ErrClosed
	for time.Now().Before(deadline) {
		w.mu.Lock()
		in := w.App.inCall
		var last *AppResult
		if n := len(w.App.Results); n != 0 {
			last = &w.App.Results[n-1]
		}
		w.mu.Unlock()
		if !in {
			if last != nil && errors.Is(last.Err, mqtt.ErrClosed) {
				break
			}
			w.App.Step()
		}
		time.Sleep(50 * time.Microsecond)
	}
	w.App.stop()
	// all calls done?
	for time.Now().Before(deadline) {
		w.mu.Lock()
		n := 0
		for _, c := range w.Calls {
			if !c.Done {
				n++
			}
		}
		in := w.App.inCall
		w.mu.Unlock()
		if n == 0 && !in {
			mqtt.VerifSetYield(nil)
			return true
		}
		time.Sleep(100 * time.Microsecond)
	}
	return false
}

const quietShort = 1500 * time.Microsecond
