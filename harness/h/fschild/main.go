//go:build verif

// Command fschild is the process the C19 check stops, faults and inspects. It
// executes an operation script against mqtt.FileSystem(dir).
//
//	fschild run  <script.json>   sequential script on the main OS thread
//	fschild conc <script.json>   goroutines of one process of a concurrent run
//
// Sequential mode keeps the whole script on the main thread (thread id ==
// process id) so that a tracer which follows that one thread sees every system
// call of Save/Delete/Load/List in program order. Operations are bracketed
// with marker system calls, faccessat on "/VERIF-C19-MARK/…", which touch
// nothing and are easy to find in a trace. Results go to standard output as
// one JSON document once the script is over; a process that is stopped half
// way reports nothing and needs not: the tracer knows where it stopped.
package main

import (
	"encoding/binary"
	"encoding/json"
	"fmt"
	"hash/fnv"
	"net"
	"os"
	"runtime"
	"sort"
	"sync"
	"syscall"
	"unsafe"

	"github.com/pascaldekloe/mqtt"
)

func init() {
	// main.main stays on the main thread
	runtime.LockOSThread()
}

// Op is one scripted operation.
type Op struct {
	Op    string `json:"op"` // save delete load list
	Key   uint   `json:"key"`
	Ver   uint32 `json:"ver,omitempty"`   // save: value version
	Parts []int  `json:"parts,omitempty"` // save: buffer sizes, sum = value size
}

// Script is the input of both modes.
type Script struct {
	Dir string `json:"dir"`
	Ops []Op   `json:"ops"`

	// file-size limit (RLIMIT_FSIZE) set right before operation LimitAt
	LimitSet      bool  `json:"limit_set"`
	LimitAt       int   `json:"limit_at"`
	Limit         int64 `json:"limit"` // bytes
	IgnoreSIGXFSZ bool  `json:"ignore_sigxfsz"`

	// concurrent mode: one operation list per goroutine
	Routines [][]Op `json:"routines,omitempty"`
	// keys which exist all along and are never deleted in a concurrent run
	Stable []uint `json:"stable,omitempty"`
	// every key of the run; List may report nothing else
	Universe []uint `json:"universe,omitempty"`
}

// Result of one operation.
type Result struct {
	Err  string `json:"err,omitempty"`
	Nil  bool   `json:"nil,omitempty"`  // load: not found
	Len  int    `json:"len,omitempty"`  // load: size
	Sum  uint64 `json:"sum,omitempty"`  // load: FNV-1a 64 of the content
	Head string `json:"head,omitempty"` // load: first bytes, hex
	Keys []uint `json:"keys,omitempty"` // list: sorted as returned (duplicates kept)
}

// Output of a run.
type Output struct {
	Results  []Result       `json:"results,omitempty"`
	Problems []string       `json:"problems,omitempty"` // concurrent mode: oracle complaints
	Counts   map[string]int `json:"counts,omitempty"`
}

// Value renders the content of (key, version, size): a 12-byte header which
// names all three, then a pseudo-random stream seeded by them. Any mixture,
// prefix or foreign content fails CheckValue. The twin of this function lives
// in props/c19_test.go.
func Value(key uint, ver uint32, n int) []byte {
	if n < 12 {
		panic("value below 12 bytes")
	}
	b := make([]byte, n)
	binary.BigEndian.PutUint32(b[0:], uint32(key))
	binary.BigEndian.PutUint32(b[4:], ver)
	binary.BigEndian.PutUint32(b[8:], uint32(n))
	x := uint64(key)<<40 ^ uint64(ver)<<20 ^ uint64(n) ^ 0x9e3779b97f4a7c15
	if x == 0 {
		x = 1
	}
	for i := 12; i < n; {
		x ^= x << 13
		x ^= x >> 7
		x ^= x << 17
		for y := x; y != 0 && i < n; y >>= 8 {
			b[i] = byte(y)
			i++
		}
	}
	return b
}

// CheckValue tells what is wrong with a value loaded for key, "" if nothing.
func CheckValue(key uint, b []byte) (ver uint32, why string) {
	if len(b) < 12 {
		return 0, fmt.Sprintf("%d bytes, less than any value saved", len(b))
	}
	k := binary.BigEndian.Uint32(b[0:])
	ver = binary.BigEndian.Uint32(b[4:])
	n := binary.BigEndian.Uint32(b[8:])
	if uint(k) != key {
		return ver, fmt.Sprintf("content belongs to key %#x", k)
	}
	if int(n) != len(b) {
		return ver, fmt.Sprintf("version %d was saved with %d bytes, loaded %d", ver, n, len(b))
	}
	want := Value(key, ver, len(b))
	for i := range b {
		if b[i] != want[i] {
			return ver, fmt.Sprintf("version %d differs from what was saved at byte %d of %d", ver, i, len(b))
		}
	}
	return ver, ""
}

func split(v []byte, parts []int) net.Buffers {
	var bufs net.Buffers
	for _, n := range parts {
		bufs = append(bufs, v[:n:n])
		v = v[n:]
	}
	if len(v) != 0 {
		bufs = append(bufs, v)
	}
	return bufs
}

func size(parts []int) (n int) {
	for _, p := range parts {
		n += p
	}
	return n
}

func mark(s string) {
	// faccessat(AT_FDCWD, "/VERIF-C19-MARK/…", F_OK): fails with ENOENT
	syscall.Access("/VERIF-C19-MARK/"+s, 0)
}

func fatal(format string, args ...interface{}) {
	fmt.Fprintf(os.Stderr, "VERIF-INFRA fschild: "+format+"\n", args...)
	os.Exit(3)
}

func errText(err error) string {
	if err == nil {
		return ""
	}
	return err.Error()
}

func main() {
	if len(os.Args) != 3 {
		fatal("usage: fschild run|conc <script.json>")
	}
	data, err := os.ReadFile(os.Args[2])
	if err != nil {
		fatal("%v", err)
	}
	var s Script
	if err := json.Unmarshal(data, &s); err != nil {
		fatal("script: %v", err)
	}
	// no core files, whatever stops us
	syscall.Setrlimit(syscall.RLIMIT_CORE, &syscall.Rlimit{})
	switch os.Args[1] {
	case "run":
		run(&s)
	case "conc":
		conc(&s)
	default:
		fatal("unknown mode %q", os.Args[1])
	}
}

func run(s *Script) {
	if syscall.Gettid() != os.Getpid() {
		fatal("script not on the main thread")
	}
	store := mqtt.FileSystem(s.Dir)
	// values are made before the script starts: no allocation noise inside
	values := make([]net.Buffers, len(s.Ops))
	for i, op := range s.Ops {
		if op.Op == "save" {
			values[i] = split(Value(op.Key, op.Ver, size(op.Parts)), op.Parts)
		}
	}
	if s.LimitSet && !s.IgnoreSIGXFSZ {
		// The Go runtime takes SIGXFSZ and goes on; the write fails with
		// EFBIG. Here the kernel's default is wanted: the process stops
		// at the write which would pass the limit.
		if err := defaultDisposition(syscall.SIGXFSZ); err != nil {
			fatal("cannot restore the default disposition of SIGXFSZ: %v", err)
		}
	}
	out := Output{Results: make([]Result, len(s.Ops))}
	mark("start")
	for i, op := range s.Ops {
		if s.LimitSet && i == s.LimitAt {
			lim := syscall.Rlimit{Cur: uint64(s.Limit), Max: uint64(s.Limit)}
			if err := syscall.Setrlimit(syscall.RLIMIT_FSIZE, &lim); err != nil {
				fatal("setrlimit: %v", err)
			}
		}
		r := &out.Results[i]
		mark(fmt.Sprintf("op/%d/begin", i))
		switch op.Op {
		case "save":
			r.Err = errText(store.Save(op.Key, values[i]))
		case "delete":
			r.Err = errText(store.Delete(op.Key))
		case "load":
			v, err := store.Load(op.Key)
			mark(fmt.Sprintf("op/%d/end", i)) // hashing is not part of the operation
			r.Err = errText(err)
			describe(r, v, err)
			continue
		case "list":
			keys, err := store.List()
			r.Err = errText(err)
			r.Keys = keys
		default:
			fatal("unknown operation %q", op.Op)
		}
		mark(fmt.Sprintf("op/%d/end", i))
	}
	mark("finish")
	for i := range out.Results {
		sortKeys(out.Results[i].Keys)
	}
	emit(&out)
}

// defaultDisposition sets SIG_DFL behind the back of the Go runtime.
func defaultDisposition(sig syscall.Signal) error {
	if runtime.GOARCH != "amd64" && runtime.GOARCH != "arm64" {
		return fmt.Errorf("not implemented for %s", runtime.GOARCH)
	}
	var act struct { // struct kernel_sigaction
		handler  uintptr
		flags    uint64
		restorer uintptr
		mask     uint64
	}
	_, _, errno := syscall.RawSyscall6(syscall.SYS_RT_SIGACTION, uintptr(sig), uintptr(unsafe.Pointer(&act)), 0, 8, 0, 0)
	if errno != 0 {
		return errno
	}
	return nil
}

func describe(r *Result, v []byte, err error) {
	if err != nil {
		return
	}
	if v == nil {
		r.Nil = true
		return
	}
	r.Len = len(v)
	h := fnv.New64a()
	h.Write(v)
	r.Sum = h.Sum64()
	n := len(v)
	if n > 16 {
		n = 16
	}
	r.Head = fmt.Sprintf("%x", v[:n])
}

func sortKeys(keys []uint) { sort.Slice(keys, func(i, j int) bool { return keys[i] < keys[j] }) }

func emit(out *Output) {
	data, err := json.Marshal(out)
	if err != nil {
		fatal("%v", err)
	}
	os.Stdout.Write(append(data, '\n'))
}

// conc runs the routines of one process of a concurrent case. It waits for
// standard input to close, so that the processes of a case start together.
// The oracle for what a running process may observe sits here, next to the
// observation; the parent judges the directory afterwards.
func conc(s *Script) {
	runtime.UnlockOSThread()
	store := mqtt.FileSystem(s.Dir)
	stable := map[uint]bool{}
	for _, k := range s.Stable {
		stable[k] = true
	}
	universe := map[uint]bool{}
	for _, k := range s.Universe {
		universe[k] = true
	}

	var mu sync.Mutex
	out := Output{Counts: map[string]int{}}
	problem := func(format string, args ...interface{}) {
		mu.Lock()
		if len(out.Problems) < 20 {
			out.Problems = append(out.Problems, fmt.Sprintf(format, args...))
		}
		mu.Unlock()
	}
	count := func(what string) {
		mu.Lock()
		out.Counts[what]++
		mu.Unlock()
	}

	var buf [1]byte
	os.Stdin.Read(buf[:]) // returns at end of input: go

	var wg sync.WaitGroup
	for ri, ops := range s.Routines {
		wg.Add(1)
		go func(ri int, ops []Op) {
			defer wg.Done()
			seen := map[uint]uint32{} // highest version seen per stable key
			for oi, op := range ops {
				at := fmt.Sprintf("routine %d operation %d", ri, oi)
				switch op.Op {
				case "save":
					v := split(Value(op.Key, op.Ver, size(op.Parts)), op.Parts)
					if err := store.Save(op.Key, v); err != nil {
						problem("%s: Save(%#x) version %d failed without any fault: %v", at, op.Key, op.Ver, err)
					}
					count("save")
				case "delete":
					if err := store.Delete(op.Key); err != nil {
						problem("%s: Delete(%#x) failed without any fault: %v", at, op.Key, err)
					}
					count("delete")
				case "load":
					v, err := store.Load(op.Key)
					count("load")
					switch {
					case err != nil:
						problem("%s: Load(%#x) failed without any fault: %v", at, op.Key, err)
					case v == nil:
						if stable[op.Key] {
							problem("%s: Load(%#x) found nothing, yet the key was saved before the run and is only ever overwritten", at, op.Key)
						}
						count("load-absent")
					default:
						ver, why := CheckValue(op.Key, v)
						if why != "" {
							problem("%s: Load(%#x) while others work: %s", at, op.Key, why)
						} else if stable[op.Key] {
							if ver < seen[op.Key] {
								problem("%s: Load(%#x) went back from version %d to %d; its only writer saves ascending versions", at, op.Key, seen[op.Key], ver)
							}
							seen[op.Key] = ver
						}
					}
				case "list":
					keys, err := store.List()
					count("list")
					if err != nil {
						problem("%s: List failed without any fault: %v", at, err)
						break
					}
					got := map[uint]int{}
					for _, k := range keys {
						got[k]++
						if !universe[k] {
							problem("%s: List reports %#x, which nobody ever saved", at, k)
						}
						if got[k] == 2 {
							problem("%s: List reports %#x twice", at, k)
						}
					}
					for k := range stable {
						if got[k] == 0 {
							problem("%s: List misses %#x, which was saved before the run and is only ever overwritten", at, k)
						}
					}
				}
			}
		}(ri, ops)
	}
	wg.Wait()
	emit(&out)
}
