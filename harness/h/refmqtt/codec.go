// Package refmqtt is an independent MQTT 3.1.1 codec and single-session broker
// model, written from the OASIS specification. It shares no code with the
// client under test and serves as the oracle of the generated checks.
package refmqtt

import (
	"errors"
	"fmt"
)

// Packet types.
const (
	CONNECT     = 1
	CONNACK     = 2
	PUBLISH     = 3
	PUBACK      = 4
	PUBREC      = 5
	PUBREL      = 6
	PUBCOMP     = 7
	SUBSCRIBE   = 8
	SUBACK      = 9
	UNSUBSCRIBE = 10
	UNSUBACK    = 11
	PINGREQ     = 12
	PINGRESP    = 13
	DISCONNECT  = 14
)

var typeNames = [16]string{"RESERVED0", "CONNECT", "CONNACK", "PUBLISH", "PUBACK", "PUBREC", "PUBREL", "PUBCOMP",
	"SUBSCRIBE", "SUBACK", "UNSUBSCRIBE", "UNSUBACK", "PINGREQ", "PINGRESP", "DISCONNECT", "RESERVED15"}

// TypeName returns the mnemonic of a packet type.
func TypeName(t byte) string { return typeNames[t&15] }

// ErrIncomplete means that the buffer ends before the packet does.
var ErrIncomplete = errors.New("refmqtt: incomplete packet")

// Malformed describes a violation of the specification.
type Malformed struct{ Reason string }

func (m *Malformed) Error() string { return "refmqtt: malformed: " + m.Reason }

func bad(format string, args ...interface{}) error {
	return &Malformed{Reason: fmt.Sprintf(format, args...)}
}

// Connect has the fields of a CONNECT packet.
type Connect struct {
	ProtoName    string
	Level        byte
	Flags        byte
	CleanSession bool
	HasWill      bool
	WillQoS      byte
	WillRetain   bool
	HasUser      bool
	HasPass      bool
	KeepAlive    uint16
	ClientID     string
	WillTopic    string
	WillMessage  []byte
	User         string
	Pass         []byte
}

// Packet is a decoded control packet.
type Packet struct {
	Type  byte
	Flags byte // low nibble of the first byte
	Raw   []byte
	// number of bytes used by the remaining-length field
	LenBytes int
	// NonMinimalLen flags a remaining length with needless continuation.
	NonMinimalLen bool

	// PUBLISH
	Dup, Retain bool
	QoS         byte
	Topic       string
	Payload     []byte

	// packet identifier, where applicable
	ID uint16

	Connect *Connect

	// CONNACK
	AckFlags   byte
	ReturnCode byte

	// SUBSCRIBE, UNSUBSCRIBE
	Filters []string
	Levels  []byte // requested levels per filter (SUBSCRIBE only)

	// SUBACK
	Codes []byte
}

func (p *Packet) String() string {
	switch p.Type {
	case PUBLISH:
		pl := p.Payload
		suffix := ""
		if len(pl) > 12 {
			pl = pl[:12]
			suffix = "…"
		}
		t := p.Topic
		if len(t) > 24 {
			t = t[:24] + "…"
		}
		return fmt.Sprintf("PUBLISH{q%d id=%#04x dup=%t ret=%t topic=%q(%d) payload=%q%s(%d)}", p.QoS, p.ID, p.Dup, p.Retain, t, len(p.Topic), pl, suffix, len(p.Payload))
	case CONNECT:
		c := p.Connect
		return fmt.Sprintf("CONNECT{id=%q flags=%#08b keepalive=%d}", c.ClientID, c.Flags, c.KeepAlive)
	case CONNACK:
		return fmt.Sprintf("CONNACK{flags=%#x code=%d}", p.AckFlags, p.ReturnCode)
	case SUBSCRIBE:
		return fmt.Sprintf("SUBSCRIBE{id=%#04x filters=%d levels=%v}", p.ID, len(p.Filters), p.Levels)
	case UNSUBSCRIBE:
		return fmt.Sprintf("UNSUBSCRIBE{id=%#04x filters=%d}", p.ID, len(p.Filters))
	case SUBACK:
		return fmt.Sprintf("SUBACK{id=%#04x codes=%x}", p.ID, p.Codes)
	case PUBACK, PUBREC, PUBREL, PUBCOMP, UNSUBACK:
		return fmt.Sprintf("%s{id=%#04x}", TypeName(p.Type), p.ID)
	}
	return TypeName(p.Type)
}

// ValidUTF8 is an RFC 3629 validator (table 3-7 of the Unicode standard),
// deliberately independent of package unicode/utf8.
func ValidUTF8(s []byte) bool {
	for i := 0; i < len(s); {
		b := s[i]
		var n int
		var lo, hi byte = 0x80, 0xBF
		switch {
		case b <= 0x7F:
			i++
			continue
		case b >= 0xC2 && b <= 0xDF:
			n = 1
		case b == 0xE0:
			n, lo = 2, 0xA0
		case b >= 0xE1 && b <= 0xEC, b == 0xEE, b == 0xEF:
			n = 2
		case b == 0xED:
			n, hi = 2, 0x9F
		case b == 0xF0:
			n, lo = 3, 0x90
		case b >= 0xF1 && b <= 0xF3:
			n = 3
		case b == 0xF4:
			n, hi = 3, 0x8F
		default:
			return false
		}
		if i+n >= len(s) {
			return false
		}
		if s[i+1] < lo || s[i+1] > hi {
			return false
		}
		for j := 2; j <= n; j++ {
			if s[i+j] < 0x80 || s[i+j] > 0xBF {
				return false
			}
		}
		i += n + 1
	}
	return true
}

// ValidString tells whether s may be transferred as an MQTT UTF-8 string.
func ValidString(s []byte) bool {
	if len(s) > 65535 || !ValidUTF8(s) {
		return false
	}
	for _, b := range s {
		if b == 0 {
			return false
		}
	}
	return true
}

// MaxRemaining is the largest remaining length a packet can have.
const MaxRemaining = 268435455

// PacketLen reads the fixed header. It returns the total packet size and the
// number of length bytes, ErrIncomplete when the header isn't complete yet, or
// Malformed for a fifth length byte.
func PacketLen(buf []byte) (total, lenBytes int, nonMinimal bool, err error) {
	if len(buf) < 2 {
		return 0, 0, false, ErrIncomplete
	}
	var size int
	for i := 1; ; i++ {
		if i >= len(buf) {
			return 0, 0, false, ErrIncomplete
		}
		b := buf[i]
		size |= int(b&0x7f) << (7 * uint(i-1))
		if b&0x80 == 0 {
			if i > 1 && b == 0 {
				nonMinimal = true
			}
			return 1 + i + size, i, nonMinimal, nil
		}
		if i == 4 {
			return 0, 0, false, bad("remaining length exceeds 4 bytes")
		}
	}
}

type reader struct {
	b   []byte
	err error
}

func (r *reader) u8(what string) byte {
	if r.err != nil {
		return 0
	}
	if len(r.b) < 1 {
		r.err = bad("%s exceeds remaining length", what)
		return 0
	}
	v := r.b[0]
	r.b = r.b[1:]
	return v
}

func (r *reader) u16(what string) uint16 {
	if r.err != nil {
		return 0
	}
	if len(r.b) < 2 {
		r.err = bad("%s exceeds remaining length", what)
		return 0
	}
	v := uint16(r.b[0])<<8 | uint16(r.b[1])
	r.b = r.b[2:]
	return v
}

func (r *reader) bin(what string) []byte {
	n := int(r.u16(what + " size"))
	if r.err != nil {
		return nil
	}
	if len(r.b) < n {
		r.err = bad("%s exceeds remaining length", what)
		return nil
	}
	v := r.b[:n:n]
	r.b = r.b[n:]
	return v
}

func (r *reader) str(what string) string {
	v := r.bin(what)
	if r.err != nil {
		return ""
	}
	if !ValidUTF8(v) {
		r.err = bad("%s is not well-formed UTF-8", what)
		return ""
	}
	for _, c := range v {
		if c == 0 {
			r.err = bad("%s contains U+0000", what)
			return ""
		}
	}
	return string(v)
}

// Decode parses the first packet in buf with strict validation. It returns
// ErrIncomplete when buf does not hold the whole packet yet (unless the header
// already is in violation).
func Decode(buf []byte) (*Packet, int, error) {
	total, lenBytes, nonMin, err := PacketLen(buf)
	if err != nil {
		return nil, 0, err
	}
	if len(buf) < total {
		return nil, 0, ErrIncomplete
	}
	raw := buf[:total:total]
	p := &Packet{Type: raw[0] >> 4, Flags: raw[0] & 15, Raw: raw, LenBytes: lenBytes, NonMinimalLen: nonMin}
	r := &reader{b: raw[1+lenBytes:]}

	wantFlags := byte(0)
	switch p.Type {
	case PUBREL, SUBSCRIBE, UNSUBSCRIBE:
		wantFlags = 2
	}
	if p.Type != PUBLISH && p.Flags != wantFlags {
		return p, total, bad("%s with header flags %#04b", TypeName(p.Type), p.Flags)
	}

	switch p.Type {
	case 0, 15:
		return p, total, bad("reserved packet type %d", p.Type)

	case CONNECT:
		c := &Connect{}
		p.Connect = c
		c.ProtoName = string(r.bin("protocol name"))
		c.Level = r.u8("protocol level")
		c.Flags = r.u8("connect flags")
		c.KeepAlive = r.u16("keep alive")
		if r.err == nil {
			if c.ProtoName != "MQTT" {
				return p, total, bad("protocol name %q", c.ProtoName)
			}
			if c.Level != 4 {
				return p, total, bad("protocol level %d", c.Level)
			}
			if c.Flags&1 != 0 {
				return p, total, bad("CONNECT reserved flag set")
			}
		}
		c.CleanSession = c.Flags&2 != 0
		c.HasWill = c.Flags&4 != 0
		c.WillQoS = c.Flags >> 3 & 3
		c.WillRetain = c.Flags&0x20 != 0
		c.HasPass = c.Flags&0x40 != 0
		c.HasUser = c.Flags&0x80 != 0
		if r.err == nil {
			if c.WillQoS == 3 {
				return p, total, bad("will QoS 3")
			}
			if !c.HasWill && (c.WillQoS != 0 || c.WillRetain) {
				return p, total, bad("will QoS/retain without will flag")
			}
			if c.HasPass && !c.HasUser {
				return p, total, bad("password flag without user name flag")
			}
		}
		c.ClientID = r.str("client identifier")
		if c.HasWill {
			c.WillTopic = r.str("will topic")
			c.WillMessage = r.bin("will message")
			if r.err == nil && c.WillTopic == "" {
				return p, total, bad("empty will topic")
			}
		}
		if c.HasUser {
			c.User = r.str("user name")
		}
		if c.HasPass {
			c.Pass = r.bin("password")
		}

	case CONNACK:
		p.AckFlags = r.u8("acknowledge flags")
		p.ReturnCode = r.u8("return code")
		if r.err == nil && p.AckFlags&^1 != 0 {
			return p, total, bad("CONNACK reserved flags %#x", p.AckFlags)
		}

	case PUBLISH:
		p.Dup = p.Flags&8 != 0
		p.QoS = p.Flags >> 1 & 3
		p.Retain = p.Flags&1 != 0
		if p.QoS == 3 {
			return p, total, bad("PUBLISH QoS 3")
		}
		if p.QoS == 0 && p.Dup {
			return p, total, bad("PUBLISH QoS 0 with DUP")
		}
		p.Topic = r.str("topic")
		if r.err == nil && p.Topic == "" {
			return p, total, bad("PUBLISH empty topic")
		}
		if p.QoS != 0 {
			p.ID = r.u16("packet identifier")
			if r.err == nil && p.ID == 0 {
				return p, total, bad("packet identifier zero")
			}
		}
		if r.err == nil {
			p.Payload = r.b
			r.b = nil
		}

	case PUBACK, PUBREC, PUBREL, PUBCOMP, UNSUBACK:
		p.ID = r.u16("packet identifier")
		if r.err == nil && p.ID == 0 {
			return p, total, bad("packet identifier zero")
		}

	case SUBSCRIBE:
		p.ID = r.u16("packet identifier")
		if r.err == nil && p.ID == 0 {
			return p, total, bad("packet identifier zero")
		}
		for r.err == nil && len(r.b) != 0 {
			f := r.str("topic filter")
			l := r.u8("requested QoS")
			if r.err == nil {
				if f == "" {
					return p, total, bad("empty topic filter")
				}
				if l > 2 {
					return p, total, bad("requested QoS byte %#x", l)
				}
				p.Filters = append(p.Filters, f)
				p.Levels = append(p.Levels, l)
			}
		}
		if r.err == nil && len(p.Filters) == 0 {
			return p, total, bad("SUBSCRIBE without filters")
		}

	case UNSUBSCRIBE:
		p.ID = r.u16("packet identifier")
		if r.err == nil && p.ID == 0 {
			return p, total, bad("packet identifier zero")
		}
		for r.err == nil && len(r.b) != 0 {
			f := r.str("topic filter")
			if r.err == nil {
				if f == "" {
					return p, total, bad("empty topic filter")
				}
				p.Filters = append(p.Filters, f)
			}
		}
		if r.err == nil && len(p.Filters) == 0 {
			return p, total, bad("UNSUBSCRIBE without filters")
		}

	case SUBACK:
		p.ID = r.u16("packet identifier")
		if r.err == nil && p.ID == 0 {
			return p, total, bad("packet identifier zero")
		}
		if r.err == nil {
			p.Codes = r.b
			r.b = nil
			if len(p.Codes) == 0 {
				return p, total, bad("SUBACK without return codes")
			}
			for _, c := range p.Codes {
				if c > 2 && c != 0x80 {
					return p, total, bad("SUBACK return code %#x", c)
				}
			}
		}

	case PINGREQ, PINGRESP, DISCONNECT:
		// no content
	}
	if r.err != nil {
		return p, total, r.err
	}
	if len(r.b) != 0 {
		return p, total, bad("%s with %d surplus bytes", TypeName(p.Type), len(r.b))
	}
	return p, total, nil
}

// DecodeAll splits a byte log into complete packets plus an incomplete rest.
// It stops at the first malformed packet, which is returned with its error.
func DecodeAll(log []byte) (packets []*Packet, rest []byte, err error) {
	for len(log) != 0 {
		p, n, err := Decode(log)
		if err == ErrIncomplete {
			return packets, log, nil
		}
		if err != nil {
			if p != nil {
				packets = append(packets, p)
			}
			return packets, log, err
		}
		packets = append(packets, p)
		log = log[n:]
	}
	return packets, nil, nil
}

func appendLen(b []byte, n int) []byte {
	for n > 127 {
		b = append(b, byte(n&127|128))
		n >>= 7
	}
	return append(b, byte(n))
}

func appendBin(b []byte, s []byte) []byte {
	b = append(b, byte(len(s)>>8), byte(len(s)))
	return append(b, s...)
}

// Encode serialises the packet from its fields (Raw is ignored).
func Encode(p *Packet) []byte {
	var body []byte
	head := p.Type << 4
	switch p.Type {
	case CONNECT:
		c := p.Connect
		body = appendBin(body, []byte("MQTT"))
		var flags byte
		if c.CleanSession {
			flags |= 2
		}
		if c.HasWill {
			flags |= 4 | c.WillQoS<<3
			if c.WillRetain {
				flags |= 0x20
			}
		}
		if c.HasPass {
			flags |= 0x40
		}
		if c.HasUser {
			flags |= 0x80
		}
		body = append(body, 4, flags, byte(c.KeepAlive>>8), byte(c.KeepAlive))
		body = appendBin(body, []byte(c.ClientID))
		if c.HasWill {
			body = appendBin(body, []byte(c.WillTopic))
			body = appendBin(body, c.WillMessage)
		}
		if c.HasUser {
			body = appendBin(body, []byte(c.User))
		}
		if c.HasPass {
			body = appendBin(body, c.Pass)
		}
	case CONNACK:
		body = append(body, p.AckFlags, p.ReturnCode)
	case PUBLISH:
		head |= p.QoS << 1
		if p.Dup {
			head |= 8
		}
		if p.Retain {
			head |= 1
		}
		body = appendBin(body, []byte(p.Topic))
		if p.QoS != 0 {
			body = append(body, byte(p.ID>>8), byte(p.ID))
		}
		body = append(body, p.Payload...)
	case PUBACK, PUBREC, PUBCOMP, UNSUBACK:
		body = append(body, byte(p.ID>>8), byte(p.ID))
	case PUBREL:
		head |= 2
		body = append(body, byte(p.ID>>8), byte(p.ID))
	case SUBSCRIBE:
		head |= 2
		body = append(body, byte(p.ID>>8), byte(p.ID))
		for i, f := range p.Filters {
			body = appendBin(body, []byte(f))
			body = append(body, p.Levels[i])
		}
	case UNSUBSCRIBE:
		head |= 2
		body = append(body, byte(p.ID>>8), byte(p.ID))
		for _, f := range p.Filters {
			body = appendBin(body, []byte(f))
		}
	case SUBACK:
		body = append(body, byte(p.ID>>8), byte(p.ID))
		body = append(body, p.Codes...)
	}
	out := make([]byte, 0, 5+len(body))
	out = append(out, head)
	out = appendLen(out, len(body))
	return append(out, body...)
}

// Ack builds PUBACK, PUBREC, PUBREL, PUBCOMP or UNSUBACK.
func Ack(typ byte, id uint16) []byte { return Encode(&Packet{Type: typ, ID: id}) }
