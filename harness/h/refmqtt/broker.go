package refmqtt

import (
	"fmt"
	"sort"
)

// Owed is a response the broker still has to send on a connection. The harness
// decides when (and whether) it goes out; order is the order of reception.
type Owed struct {
	Kind  byte // CONNACK, PUBACK, PUBREC, PUBREL, PUBCOMP, SUBACK, UNSUBACK or PINGRESP
	ID    uint16
	Codes []byte // SUBACK
	Seq   int    // reception order on the connection
}

func (o Owed) String() string { return fmt.Sprintf("%s(%#04x)", TypeName(o.Kind), o.ID) }

// Bytes encodes the response.
func (o Owed) Bytes() []byte {
	switch o.Kind {
	case SUBACK:
		return Encode(&Packet{Type: SUBACK, ID: o.ID, Codes: o.Codes})
	case PINGRESP:
		return []byte{PINGRESP << 4, 0}
	default:
		return Ack(o.Kind, o.ID)
	}
}

// Delivery is a message the broker forwarded to its subscribers.
type Delivery struct {
	Conn    int
	QoS     byte
	ID      uint16
	Topic   string
	Payload []byte
	Dup     bool
	Retain  bool
}

// Stage of a message the broker sends to the client.
const (
	StageQueued   = iota // not transmitted yet
	StagePublish         // PUBLISH transmitted, PUBACK/PUBREC awaited
	StageRecvd           // PUBREC received, PUBREL owed
	StageRelease         // PUBREL transmitted, PUBCOMP awaited
	StageComplete        // done
)

// OutMsg is a message from the broker to the client.
type OutMsg struct {
	N       int // ordinal
	QoS     byte
	ID      uint16
	Topic   string
	Payload []byte
	Retain  bool
	Stage   int
	// statistics
	PublishSent, RelSent                 int
	AcksSeen, RecsSeen, CompsSeen        int
	Retransmitted, RelRetransmitted      bool
	PublishConn                          int
	InterruptedBetweenPublishAndComplete bool
	Dropped                              bool
}

// ConnState is the broker's view of one network connection.
type ConnState struct {
	N         int
	buf       []byte
	Packets   []*Packet // complete packets received, in order
	Connect   *Packet
	Owed      []Owed
	owedSeq   int
	Bad       error // first violation by the client on this connection
	BadAt     int   // number of packets before the violation
	Disc      bool  // DISCONNECT seen
	Dead      bool
	Accepted  bool // CONNACK with code 0 was released
	fedBytes  int
	SubLevels map[uint16][]byte
}

// Session is the broker state which survives connections.
type Session struct {
	AwaitRel map[uint16]bool // QoS 2 identifiers received, PUBREL awaited
	Inflight []*OutMsg       // messages to the client not completed, in order
	Present  bool            // a session exists for the client identifier
}

// Broker is a conforming MQTT 3.1.1 server for one client session.
type Broker struct {
	Sess       Session
	Deliveries []Delivery
	Conns      map[int]*ConnState
	Out        []*OutMsg // everything ever sent to the client
	nextID     uint16
	// Notes collects observations about the client which are violations of
	// the protocol by the client (used by oracles).
	ClientFaults []string
	// Oddities are tolerated irregularities (acknowledgements for unknown identifiers).
	Oddities []string
	// Trace of what happened, for replay rendering.
	OnDeliver func(d Delivery)
}

// NewBroker returns an empty broker.
func NewBroker() *Broker {
	return &Broker{Sess: Session{AwaitRel: map[uint16]bool{}}, Conns: map[int]*ConnState{}}
}

// Snapshot is a deep copy of the session state together with counters.
type Snapshot struct {
	AwaitRel    []uint16
	Inflight    []OutMsg
	Present     bool
	NDeliveries int
	NextID      uint16
	NOut        int
}

// Snapshot captures the session.
func (b *Broker) Snapshot() Snapshot {
	s := Snapshot{Present: b.Sess.Present, NDeliveries: len(b.Deliveries), NextID: b.nextID, NOut: len(b.Out)}
	for id := range b.Sess.AwaitRel {
		s.AwaitRel = append(s.AwaitRel, id)
	}
	sort.Slice(s.AwaitRel, func(i, j int) bool { return s.AwaitRel[i] < s.AwaitRel[j] })
	for _, m := range b.Sess.Inflight {
		s.Inflight = append(s.Inflight, *m)
	}
	return s
}

// NewFromSnapshot returns a broker which continues the captured session.
// Deliveries are carried over up to the snapshot.
func NewFromSnapshot(s Snapshot, deliveries []Delivery) *Broker {
	b := NewBroker()
	b.Sess.Present = s.Present
	for _, id := range s.AwaitRel {
		b.Sess.AwaitRel[id] = true
	}
	for i := range s.Inflight {
		m := s.Inflight[i]
		b.Sess.Inflight = append(b.Sess.Inflight, &m)
		b.Out = append(b.Out, &m)
	}
	b.nextID = s.NextID
	b.Deliveries = append(b.Deliveries, deliveries[:s.NDeliveries]...)
	return b
}

// Open registers a new network connection.
func (b *Broker) Open(n int) *ConnState {
	c := &ConnState{N: n, SubLevels: map[uint16][]byte{}}
	b.Conns[n] = c
	return c
}

// Kill drops a connection together with everything owed on it.
func (b *Broker) Kill(n int) {
	c := b.Conns[n]
	if c == nil || c.Dead {
		return
	}
	c.Dead = true
	c.Owed = nil
	for _, m := range b.Sess.Inflight {
		if m.Stage != StageQueued && m.Stage != StageComplete {
			m.InterruptedBetweenPublishAndComplete = true
		}
	}
}

func (c *ConnState) owe(kind byte, id uint16, codes []byte) {
	c.owedSeq++
	c.Owed = append(c.Owed, Owed{Kind: kind, ID: id, Codes: codes, Seq: c.owedSeq})
}

// Feed processes bytes which arrived from the client on connection n.
// It returns the packets completed by these bytes.
func (b *Broker) Feed(n int, data []byte) []*Packet {
	c := b.Conns[n]
	if c == nil || c.Dead {
		return nil
	}
	c.fedBytes += len(data)
	if c.Bad != nil {
		return nil
	}
	c.buf = append(c.buf, data...)
	var done []*Packet
	for len(c.buf) != 0 {
		p, size, err := Decode(c.buf)
		if err == ErrIncomplete {
			break
		}
		if err != nil {
			c.Bad, c.BadAt = err, len(c.Packets)
			b.ClientFaults = append(b.ClientFaults, fmt.Sprintf("conn %d packet %d: %v", n, len(c.Packets), err))
			break
		}
		// own copy; the buffer moves on
		raw := append([]byte(nil), c.buf[:size]...)
		p, _, _ = Decode(raw)
		c.buf = c.buf[size:]
		c.Packets = append(c.Packets, p)
		done = append(done, p)
		b.handle(c, p)
		if c.Bad != nil {
			break
		}
	}
	return done
}

// Pending returns the bytes of an incomplete packet on the connection.
func (c *ConnState) Pending() []byte { return c.buf }

func (b *Broker) fault(c *ConnState, format string, args ...interface{}) {
	msg := fmt.Sprintf("conn %d packet %d: ", c.N, len(c.Packets)-1) + fmt.Sprintf(format, args...)
	if c.Bad == nil {
		c.Bad, c.BadAt = &Malformed{Reason: msg}, len(c.Packets)-1
	}
	b.ClientFaults = append(b.ClientFaults, msg)
}

// note records an oddity which does not end the connection.
func (b *Broker) note(c *ConnState, format string, args ...interface{}) {
	b.Oddities = append(b.Oddities, fmt.Sprintf("conn %d packet %d: ", c.N, len(c.Packets)-1)+fmt.Sprintf(format, args...))
}

func (b *Broker) handle(c *ConnState, p *Packet) {
	if c.Connect == nil {
		if p.Type != CONNECT {
			b.fault(c, "first packet is %s, not CONNECT", TypeName(p.Type))
			return
		}
		c.Connect = p
		c.owe(CONNACK, 0, nil)
		return
	}
	if c.Disc {
		b.fault(c, "%s after DISCONNECT", TypeName(p.Type))
		return
	}
	switch p.Type {
	case CONNECT:
		b.fault(c, "second CONNECT")
	case PUBLISH:
		d := Delivery{Conn: c.N, QoS: p.QoS, ID: p.ID, Topic: p.Topic, Payload: p.Payload, Dup: p.Dup, Retain: p.Retain}
		switch p.QoS {
		case 0:
			b.deliver(d)
		case 1:
			b.deliver(d)
			c.owe(PUBACK, p.ID, nil)
		case 2:
			if !b.Sess.AwaitRel[p.ID] {
				b.Sess.AwaitRel[p.ID] = true
				b.deliver(d)
			}
			c.owe(PUBREC, p.ID, nil)
		}
	case PUBREL:
		delete(b.Sess.AwaitRel, p.ID)
		c.owe(PUBCOMP, p.ID, nil)
	case SUBSCRIBE:
		codes := append([]byte(nil), p.Levels...)
		c.owe(SUBACK, p.ID, codes)
	case UNSUBSCRIBE:
		c.owe(UNSUBACK, p.ID, nil)
	case PINGREQ:
		c.owe(PINGRESP, 0, nil)
	case DISCONNECT:
		c.Disc = true
	case PUBACK:
		m := b.inflight(p.ID)
		if m == nil || m.QoS != 1 || m.Stage != StagePublish {
			// e.g. the acknowledgement of a delivery that was also
			// retransmitted; brokers ignore these
			b.note(c, "PUBACK %#04x without matching PUBLISH in flight", p.ID)
			return
		}
		m.AcksSeen++
		m.Stage = StageComplete
		b.dropInflight(m)
	case PUBREC:
		m := b.inflight(p.ID)
		if m == nil || m.QoS != 2 {
			b.note(c, "PUBREC %#04x without matching PUBLISH in flight", p.ID)
			c.owe(PUBREL, p.ID, nil) // lets the client's side complete
			return
		}
		m.RecsSeen++
		if m.Stage == StagePublish {
			m.Stage = StageRecvd
		}
		c.owe(PUBREL, p.ID, nil)
	case PUBCOMP:
		m := b.inflight(p.ID)
		if m == nil || m.QoS != 2 || m.Stage != StageRelease {
			b.note(c, "PUBCOMP %#04x without matching PUBREL in flight", p.ID)
			return
		}
		m.CompsSeen++
		m.Stage = StageComplete
		b.dropInflight(m)
	default:
		b.fault(c, "%s from a client", TypeName(p.Type))
	}
}

func (b *Broker) deliver(d Delivery) {
	b.Deliveries = append(b.Deliveries, d)
	if b.OnDeliver != nil {
		b.OnDeliver(d)
	}
}

func (b *Broker) inflight(id uint16) *OutMsg {
	for _, m := range b.Sess.Inflight {
		if m.ID == id && m.Stage != StageQueued {
			return m
		}
	}
	return nil
}

func (b *Broker) dropInflight(m *OutMsg) {
	for i, x := range b.Sess.Inflight {
		if x == m {
			b.Sess.Inflight = append(b.Sess.Inflight[:i:i], b.Sess.Inflight[i+1:]...)
			return
		}
	}
}

// Accept applies the effect of a CONNECT which the broker accepts: clean
// session discards the state. It returns the session-present flag to answer.
func (b *Broker) Accept(c *ConnState) (sessionPresent bool) {
	if c.Connect.Connect.CleanSession {
		b.Sess.AwaitRel = map[uint16]bool{}
		for _, m := range b.Sess.Inflight {
			m.Stage = StageComplete // dropped with the session
			m.Dropped = true
		}
		b.Sess.Inflight = nil
		b.Sess.Present = true
		c.Accepted = true
		return false
	}
	sp := b.Sess.Present
	b.Sess.Present = true
	c.Accepted = true
	return sp
}

// TakeOwed removes and returns the i-th owed response of the connection.
func (c *ConnState) TakeOwed(i int) Owed {
	o := c.Owed[i]
	c.Owed = append(c.Owed[:i:i], c.Owed[i+1:]...)
	return o
}

// NewMessage registers a message for the client and picks its identifier:
// the lowest positive one which is not in flight, starting from base.
func (b *Broker) NewMessage(qos byte, topic string, payload []byte, retain bool, base uint16) *OutMsg {
	m := &OutMsg{N: len(b.Out), QoS: qos, Topic: topic, Payload: payload, Retain: retain, Stage: StageQueued}
	if qos != 0 {
		id := base
		if id == 0 {
			id = 1
		}
		for b.idInUse(id) {
			id++
			if id == 0 {
				id = 1
			}
		}
		m.ID = id
		b.nextID = id + 1
		b.Sess.Inflight = append(b.Sess.Inflight, m)
	}
	b.Out = append(b.Out, m)
	return m
}

func (b *Broker) idInUse(id uint16) bool {
	for _, m := range b.Sess.Inflight {
		if m.ID == id {
			return true
		}
	}
	return false
}

// PublishBytes encodes the (re)transmission of m and updates its stage.
func (b *Broker) PublishBytes(m *OutMsg, conn int) []byte {
	dup := m.PublishSent > 0 && m.QoS != 0
	m.PublishSent++
	if dup {
		m.Retransmitted = true
	}
	m.PublishConn = conn
	if m.QoS == 0 {
		m.Stage = StageComplete
	} else if m.Stage == StageQueued {
		m.Stage = StagePublish
	}
	return Encode(&Packet{Type: PUBLISH, QoS: m.QoS, ID: m.ID, Topic: m.Topic, Payload: m.Payload, Retain: m.Retain, Dup: dup})
}

// MarkRelSent notes that PUBREL for id went out.
func (b *Broker) MarkRelSent(id uint16) {
	if m := b.inflight(id); m != nil && (m.Stage == StageRecvd || m.Stage == StageRelease) {
		if m.RelSent > 0 {
			m.RelRetransmitted = true
		}
		m.RelSent++
		m.Stage = StageRelease
	}
}

// Retransmissions lists what a conforming broker re-sends on a new connection
// with session present: unacknowledged PUBLISH (DUP) and PUBREL, in order.
func (b *Broker) Retransmissions() []*OutMsg {
	var l []*OutMsg
	for _, m := range b.Sess.Inflight {
		switch m.Stage {
		case StagePublish, StageRecvd, StageRelease:
			l = append(l, m)
		}
	}
	return l
}

// DroppedWithSession tells whether the message was discarded by a clean session.
func (b *Broker) DroppedWithSession(m *OutMsg) bool { return m.Dropped }
