package props

import (
	"fmt"
	"sync"
	"testing"

	"github.com/pascaldekloe/mqtt/mqtttest"
	"pgregory.net/rapid"
)

// TestC20MockConcurrent: the mocks count their invocations with atomics, i.e.
// they are made for use from several goroutines (a client under test
// publishes from many). With every expectation identical the order of
// arrival does not matter, so the verdict is determined: a failure is
// reported exactly when the number of calls differs from the number of
// expectations, never for a matching invocation.
func TestC20MockConcurrent(t *testing.T) {
	rapid.Check(t, func(rt *rapid.T) {
		kind := rapid.SampledFrom([]string{"publish", "subscribe", "unsubscribe"}).Draw(rt, "mock")
		goroutines := rapid.IntRange(2, 8).Draw(rt, "goroutines")
		perG := rapid.SampledFrom([]int{1, 10, 200, 2000}).Draw(rt, "callsPerGoroutine")
		calls := goroutines * perG
		delta := rapid.SampledFrom([]int{0, 0, 0, -2, -1, 1, 2}).Draw(rt, "expectationsMinusCalls")
		nWant := calls + delta
		if nWant < 0 {
			nWant = 0
		}
		desc := fmt.Sprintf("%s mock, %d identical expectations, %d goroutines x %d matching calls", kind, nWant, goroutines, perG)
		tb := new(recTB)
		var call func() error
		o := runIsolated(func() {
			switch kind {
			case "publish":
				want := make([]mqtttest.Transfer, nWant)
				for i := range want {
					want[i] = mqtttest.Transfer{Message: []byte("m"), Topic: "t"}
				}
				f := mqtttest.NewPublishMock(tb, want...)
				call = func() error { return f(nil, []byte("m"), "t") }
			case "subscribe":
				want := make([]mqtttest.Filter, nWant)
				for i := range want {
					want[i] = mqtttest.Filter{Topics: []string{"a", "b/#"}}
				}
				f := mqtttest.NewSubscribeMock(tb, want...)
				call = func() error { return f(nil, "a", "b/#") }
			default:
				want := make([]mqtttest.Filter, nWant)
				for i := range want {
					want[i] = mqtttest.Filter{Topics: []string{"a", "b/#"}}
				}
				f := mqtttest.NewUnsubscribeMock(tb, want...)
				call = func() error { return f(nil, "a", "b/#") }
			}
		})
		if o.panicked {
			violate(rt, "C20", "%s: the constructor panicked: %s", desc, fmt.Sprint(o.panicVal))
		}
		var wg sync.WaitGroup
		var mu sync.Mutex
		var panics []string
		nonNil := 0
		start := make(chan struct{})
		for g := 0; g < goroutines; g++ {
			wg.Add(1)
			go func() {
				defer wg.Done()
				<-start
				for i := 0; i < perG; i++ {
					var err error
					oc := runIsolated(func() { err = call() })
					mu.Lock()
					if oc.panicked {
						panics = append(panics, fmt.Sprint(oc.panicVal))
					}
					if err != nil {
						nonNil++
					}
					mu.Unlock()
				}
			}()
		}
		close(start)
		wg.Wait()
		if len(panics) != 0 {
			violate(rt, "C20", "%s: a call panicked: %s", desc, panics[0])
		}
		if oc := tb.runCleanups(); oc.panicked {
			violate(rt, "C20", "%s: Cleanup panicked: %s", desc, fmt.Sprint(oc.panicVal))
		}
		infraOdd(rt, tb)
		failed := tb.failCount() != 0
		deviation := nWant != calls
		if failed != deviation {
			violate(rt, "C20", "%s: failure reported = %t (%s), want %t: every invocation matches, only the number of calls counts", desc, failed, tb.failText(), deviation)
		}
		if !deviation && nonNil != 0 {
			violate(rt, "C20", "%s: %d matching calls returned an error", desc, nonNil)
		}
		c20Stats().Case(desc, perG >= 200, "mock-used-from-several-goroutines")
	})
}
