package props

import (
	"fmt"
	"testing"

	"pgregory.net/rapid"
	"verifh/refmqtt"
	"verifh/sim"
)

// TestC13AckBeforeWritten: packet identifiers are sequential, so a broker can
// acknowledge a PUBLISH before it was written completely (the publisher sits
// inside Write). Whatever the client makes of such an acknowledgement — the
// reference leaves that open — nothing may panic when the write then fails,
// the publish call returns, and the session goes on.
func TestC13AckBeforeWritten(t *testing.T) {
	rapid.Check(t, func(rt *rapid.T) {
		h := newH(rt, "C13", sim.Options{Config: baseConfig()})
		defer func() { h.finish(true) }()
		h.Act("appStep")
		h.appStep("first connect")
		c := h.Current()
		if c == nil || !c.Accepted() {
			h.Failf("VERIF-INFRA: no connection")
		}
		level := byte(rapid.IntRange(1, 2).Draw(rt, "level"))
		prior := rapid.IntRange(0, 2).Draw(rt, "priorPending")
		for i := 0; i < prior; i++ {
			h.pub(level, false)
		}
		d := rapid.IntRange(0, 12).Draw(rt, "parkOff")
		c.ArmWrite(sim.WFault{Off: c.OutLen() + d, Kind: sim.WPark})
		h.Act("the next Write parks %d bytes into the packet", d)
		stuck := h.pub(level, false)
		if c.WritersParked() == 0 || h.IsDone(stuck) {
			for c.ReleaseWrite() {
			}
			return
		}
		// the broker acknowledges everything, the packet in transit included
		space := map[byte]uint16{1: 0x8000, 2: 0xc000}[level]
		kind := map[byte]byte{1: refmqtt.PUBACK, 2: refmqtt.PUBREC}[level]
		h.App.Step()
		for i := 0; i <= prior; i++ {
			id := space | uint16(i)
			h.Act("broker sends %s %#04x%s", refmqtt.TypeName(kind), id, map[bool]string{true: " (for the packet which is still being written)", false: ""}[i == prior])
			c.Send(refmqtt.Ack(kind, id))
			h.PollQuiet(quiet, func() bool { return false })
		}
		how := rapid.SampledFrom([]string{"reset", "timeout", "completes"}).Draw(rt, "writeEnds")
		h.Act("the parked Write ends: %s", how)
		switch how {
		case "reset":
			c.Break(false)
		case "timeout":
			c.ArmWrite(sim.WFault{Off: c.OutLen(), Kind: sim.WTimeout})
			c.ReleaseWrite()
		default:
			c.ReleaseWrite()
		}
		h.MustPoll("the publish whose packet was acknowledged early returning", func() bool { return h.IsDone(stuck) })
		if p := h.Panics(); len(p) != 0 {
			h.Failf("panic after an acknowledgement for a PUBLISH which was still being written (%s): %s", how, p[0])
		}
		if stuck.Panic != "" {
			h.Failf("panic in the publish call: %s", stuck.Panic)
		}
		// the session goes on
		h.SetAutoAck(true)
		for i := 0; i < 6 && !(h.ReaderWaiting() && h.Current() != nil); i++ {
			h.App.Step()
			h.MustPoll("ReadSlices returning or waiting for input", func() bool { return !h.App.InCall() || h.ReaderWaiting() })
		}
		probe := h.pub(1, false)
		h.MustPoll("a later publish returning", func() bool { return h.IsDone(probe) })
		noPanics(h)
		h.label(fmt.Sprintf("early-acknowledgement-write-%s", how))
	})
}
