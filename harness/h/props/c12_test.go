package props

import (
	"bytes"
	"errors"
	"fmt"
	"os"
	"runtime"
	"strings"
	"testing"
	"time"

	"github.com/pascaldekloe/mqtt"
	"pgregory.net/rapid"
	"verifh/refmqtt"
	"verifh/sim"
)

func isClosedChan(ch <-chan struct{}) bool {
	select {
	case <-ch:
		return true
	default:
		return false
	}
}

// signals reads Online and Offline; never both may be released.
func (h *H) checkSignals(when string, wantClosed bool) {
	// read Offline first: during a successful connect Offline gets blocked
	// before Online is released, so this order cannot see a torn pair
	off := isClosedChan(h.Client.Offline())
	on := isClosedChan(h.Client.Online())
	if on && off {
		// look again in the other order before judging
		on2 := isClosedChan(h.Client.Online())
		off2 := isClosedChan(h.Client.Offline())
		if on2 && off2 {
			h.Failf("%s: Online and Offline are both released", when)
		}
	}
	if wantClosed {
		if !off {
			h.Failf("%s: Offline is not released although the client is closed", when)
		}
		if on {
			h.Failf("%s: Online is released although the client is closed", when)
		}
	}
}

// C12 — Close and Disconnect end the client from any state, promptly and for good.
func TestC12Shutdown(t *testing.T) {
	rapid.Check(t, func(rt *rapid.T) {
		baseGo := runtime.NumGoroutine()
		cfg := baseConfig()
		h := newH(rt, "C12", asVolatileSession(rt, sim.Options{Config: cfg}))
		state := rapid.SampledFrom([]string{"never-connected", "dialing", "awaiting-connack", "resending", "online-idle", "online-holding",
			"writers-parked", "offline-after-failed-connect", "reconnect-pending", "already-closed", "remote-closed-unnoticed", "next-write-fails", "connecting-behind-a-slow-save", "connect-write-parked"}).Draw(rt, "state")
		h.Act("state %s", state)
		h.label("state:" + state)
		nontrivial := state != "online-idle" && state != "never-connected"
		defer func() { h.finish(nontrivial) }()

		var early []*sim.Call // requests in flight
		request := func(kind int) {
			switch kind {
			case 0:
				early = append(early, h.pub(0, false))
			case 1:
				early = append(early, h.sub(1, 2))
			case 2:
				early = append(early, h.ping())
			case 3:
				early = append(early, h.pub(1, false))
			case 4:
				early = append(early, h.pub(2, false))
			case 5:
				early = append(early, h.unsub(1))
			}
		}

		deaf := false
		slowSave := false
		switch state {
		case "never-connected":
		case "dialing":
			// (a Dialer which does not notice the end of its context in time
			// hands out a connection after the client was closed)
			deaf = rapid.Bool().Draw(rt, "dialerIgnoresContext")
			h.ScriptDial(sim.DialOutcome{Kind: sim.DialPark, Deaf: deaf})
			if deaf {
				h.label("dialer-returns-a-connection-after-close")
			}
			h.App.Step()
			h.MustPoll("dial parked", func() bool { return h.DialParked() > 0 })
		case "connect-write-parked":
			// the peer stopped taking bytes inside the CONNECT packet: the
			// read routine sits in that Write when the shutdown arrives
			d := rapid.IntRange(0, connectLen-1).Draw(rt, "connectCut")
			h.WithLock(func() {
				h.NextConnOpts = func(c *sim.Conn) {
					c.ArmWriteLocked(sim.WFault{Off: d, Kind: sim.WPark})
					h.NextConnOpts = nil
				}
			})
			h.App.Step()
			h.SettleReader("CONNECT write parked")
		case "awaiting-connack":
			h.ScriptDial(sim.DialOutcome{Connack: &sim.ConnackPolicy{Kind: sim.ConnackHold}})
			h.App.Step()
			h.SettleReader("handshake outstanding")
		case "resending":
			request(3)
			request(4)
			request(3)
			d := rapid.IntRange(0, 30).Draw(rt, "resendOff")
			h.WithLock(func() {
				h.NextConnOpts = func(c *sim.Conn) {
					c.ArmWriteLocked(sim.WFault{Off: connectLen + d, Kind: sim.WPark})
					h.NextConnOpts = nil
				}
			})
			h.App.Step()
			h.SettleReader("resend parked")
		case "online-idle", "online-holding", "writers-parked", "reconnect-pending", "remote-closed-unnoticed", "next-write-fails":
			h.App.Step()
			h.SettleReader("connect")
			if state == "online-holding" {
				h.brokerSend(byte(rapid.IntRange(1, 2).Draw(rt, "qos")), 5)
			}
			if state == "remote-closed-unnoticed" {
				// the application holds a message (it is not reading) while the
				// broker closes; the next writer is the first to learn of it
				h.brokerSend(byte(rapid.IntRange(0, 2).Draw(rt, "qos")), 5)
				if cur := h.Current(); cur != nil {
					cur.Break(true)
				}
				request(rapid.SampledFrom([]int{0, 1, 2, 3}).Draw(rt, "firstToNotice"))
			}
			if state == "writers-parked" {
				h.armWrite(rapid.IntRange(0, 6).Draw(rt, "parkOff"), sim.WPark)
			}
			if state == "next-write-fails" {
				// whoever writes next (DISCONNECT itself, if no request comes
				// first) meets a peer which stopped draining, or a reset
				h.armWrite(rapid.IntRange(0, 1).Draw(rt, "failOff"), rapid.SampledFrom([]int{sim.WTimeout, sim.WReset}).Draw(rt, "failKind"))
			}
			if state == "reconnect-pending" {
				if cur := h.Current(); cur != nil {
					cur.Break(rapid.Bool().Draw(rt, "graceful"))
				}
				h.settleInbound()
			}
		case "connecting-behind-a-slow-save":
			// A publisher sits inside a slow Persistence.Save and holds its
			// level's sequence lock; the connection is lost and the read
			// routine reconnects: dial and handshake pass, then connect
			// waits for that lock. The shutdown arrives now. (It may wait for
			// the Save: judged after the Save completed.)
			h.App.Step()
			h.SettleReader("connect")
			if cur := h.Current(); cur != nil && cur.Accepted() {
				h.Store.ParkNext('S')
				request(rapid.SampledFrom([]int{3, 4}).Draw(rt, "slowSaveLevel"))
				if h.Store.Parked() > 0 {
					slowSave = true
					cur.Break(false)
					for i := 0; i < 3; i++ {
						h.App.Step()
						h.PollQuiet(2*time.Millisecond, func() bool { return false })
					}
				} else {
					h.Store.ClearParks()
				}
			}
		case "offline-after-failed-connect":
			h.ScriptDial(sim.DialOutcome{Kind: sim.DialErr})
			h.App.Step()
			h.SettleReader("failed connect")
		case "already-closed":
			h.App.Step()
			h.SettleReader("connect")
			h.Client.Close()
			if rapid.Bool().Draw(rt, "readToErrClosed") {
				h.App.Step()
				h.SettleReader("ErrClosed")
			}
		}
		// requests in flight
		for i := 0; i < rapid.IntRange(0, 3).Draw(rt, "requests"); i++ {
			request(rapid.IntRange(0, 5).Draw(rt, "req"))
		}
		// placement between the steps of the shutdown itself
		gate := rapid.SampledFrom([]string{"", "", "close.cancel", "close.locked", "disconnect.cancel", "disconnect.locked", "offline.enter", "connect.locked", "dial.done", "handshake.done"}).Draw(rt, "gate")
		if gate != "" {
			h.ArmGate(gate)
			h.Act("gate %s", gate)
		}

		// (closing the connection may take its time: whoever gets there first
		// sits in conn.Close while the other shutdown calls arrive)
		var slowConn *sim.Conn
		if cur := h.Current(); cur != nil && cur.Accepted() && !h.WritersParkedAny() && rapid.IntRange(0, 3).Draw(rt, "slowConnClose") == 0 {
			slowConn = cur
			cur.ParkClose()
			h.Act("conn %d: Close will take its time", cur.N)
		}
		// the shutdown calls, concurrently
		type closer struct {
			call *sim.Call
			kind string
			quit chan struct{}
		}
		var closers []closer
		// another goroutine (a request, or the read routine's resend) sits
		// inside Write and holds the write lock
		foreignWriter := h.WritersParkedAny()
		n := rapid.IntRange(1, 4).Draw(rt, "closers")
		if n >= 2 {
			nontrivial = true
		}
		for i := 0; i < n; i++ {
			kind := rapid.SampledFrom([]string{"close", "close", "disconnect-nil", "disconnect-open", "disconnect-closed", "disconnect-later"}).Draw(rt, "closer")
			cl := closer{kind: kind}
			h.Act("shutdown call %s", kind)
			switch kind {
			case "close":
				cl.call = h.Go("close", &Req{Kind: "close"}, func() (<-chan error, error) { return nil, h.Client.Close() })
			default:
				var quit chan struct{}
				if kind != "disconnect-nil" {
					quit = make(chan struct{})
				}
				if kind == "disconnect-closed" {
					close(quit)
				}
				cl.quit = quit
				cl.call = h.Go(kind, &Req{Kind: "disconnect", Quit: strings.TrimPrefix(kind, "disconnect-")}, func() (<-chan error, error) {
					return nil, h.Client.Disconnect(quit)
				})
			}
			closers = append(closers, cl)
			h.PollQuiet(quiet, func() bool { return h.IsDone(cl.call) })
		}
		if slowConn != nil {
			h.PollQuiet(quiet, func() bool { return slowConn.CloseParked() })
			if slowConn.CloseParked() {
				// somebody is inside conn.Close. A Close which has returned by
				// now says the client is closed: the signals must agree.
				for _, cl := range closers {
					if cl.kind == "close" && h.IsDone(cl.call) {
						h.checkSignals("when a Close call returned while another shutdown call was still closing the connection", true)
					}
				}
				h.label("slow-close-of-the-connection-during-shutdown")
			}
			h.Act("conn %d: Close completes", slowConn.N)
			slowConn.ReleaseClose()
		}
		// open the hook gate (placement only; it must not be needed)
		if gate != "" {
			h.PollQuiet(quiet, func() bool { return false })
			for h.ReleaseGate(gate) {
			}
			h.DisarmGate(gate)
		}
		for _, cl := range closers {
			if cl.kind == "disconnect-later" {
				close(cl.quit)
			}
		}
		// (the connection of a Dialer which was past the point of no return
		// when the context ended arrives now: Close need not beat a Dialer
		// which ignores its context, but that connection must not leak)
		if deaf {
			h.Act("the Dialer returns a connection although its context ended")
			h.ReleaseDial()
		}
		// Close must return while writers and dials are still parked; a
		// Disconnect without quit may wait for a writer inside Write (L10)
		// (… and whoever queues up behind such a Disconnect waits with it)
		mayWait := false
		for _, cl := range closers {
			// (a Disconnect whose quit is closed may still win the connection
			// and sit in its own Write: quit need not win the race, L3)
			// — unless somebody else holds the write lock already: then a
			// Disconnect whose quit fired can only take the quit branch, which
			// interrupts that writer just like Close does
			if cl.kind == "disconnect-nil" || cl.kind == "disconnect-open" || cl.kind != "close" && !foreignWriter {
				mayWait = true
			}
		}
		if slowSave {
			mayWait = true
		}
		if !mayWait {
			for _, cl := range closers {
				h.MustPoll(fmt.Sprintf("%s returning while writers and dials are still parked", cl.kind), func() bool { return h.IsDone(cl.call) })
			}
		}
		for _, c := range h.AllConns() {
			for c.ReleaseWrite() {
			}
		}
		for h.ReleaseDial() {
		}
		if slowSave {
			h.Act("the slow Save completes")
			for h.Store.Release() {
			}
			h.Store.ClearParks()
		}
		for _, cl := range closers {
			h.MustPoll(fmt.Sprintf("%s returning", cl.kind), func() bool { return h.IsDone(cl.call) })
		}
		noPanics(h)
		h.checkSignals("after Close/Disconnect returned", true)
		// every connection starts with (a prefix of) the CONNECT of this Config
		// and carries whole packets only, whatever the shutdown interrupted
		wantConnect := refmqtt.Encode(&refmqtt.Packet{Type: refmqtt.CONNECT, Connect: &refmqtt.Connect{ClientID: clientID, KeepAlive: cfg.KeepAlive, CleanSession: cfg.CleanSession}})
		for _, c := range h.AllConns() {
			out := c.OutCopy()
			n := min(len(out), len(wantConnect))
			if !bytes.Equal(out[:n], wantConnect[:n]) {
				h.Failf("conn %d: the first %d bytes written are no prefix of the CONNECT packet: % x, want % x", c.N, n, out[:n], wantConnect[:n])
			}
		}
		h.checkWire()

		// a successful Disconnect: DISCONNECT is the last packet of its connection
		for _, cl := range closers {
			if strings.HasPrefix(cl.kind, "disconnect") && cl.call.Err == nil {
				found := false
				for _, c := range h.AllConns() {
					ps, rest, _ := refmqtt.DecodeAll(c.OutCopy())
					for i, p := range ps {
						if p.Type == refmqtt.DISCONNECT {
							found = true
							if i != len(ps)-1 || len(rest) != 0 {
								h.Failf("conn %d: Disconnect returned nil, yet DISCONNECT is followed by more output", c.N)
							}
						}
					}
				}
				if !found {
					h.Failf("Disconnect returned nil, yet no connection carries a DISCONNECT packet")
				}
			}
		}

		// ReadSlices: ErrClosed after at most one other error, never blocks
		sawClosed := false
		for i := 0; i < 3; i++ {
			h.MustPoll("ReadSlices returning after Close", func() bool { return !h.App.InCall() })
			if last, ok := h.App.Last(); ok && errors.Is(last.Err, mqtt.ErrClosed) {
				sawClosed = true
				break
			} else if ok && last.Err != nil && !last.Big {
				// not final yet: the read loop is told to go on (C14: ReadBackoff
				// is nil exactly for the permanent class)
				if h.Client.ReadBackoff(last.Err) == nil {
					h.Failf("ReadSlices returned %v (not ErrClosed) after the shutdown, yet ReadBackoff gives nil for it: a read loop which follows ReadBackoff stops before ErrClosed", last.Err)
				}
			}
			if i == 2 {
				break
			}
			h.App.Step()
		}
		if !sawClosed {
			last, _ := h.App.Last()
			h.Failf("ReadSlices did not report ErrClosed within two invocations after the client was closed; last return: %s", last)
		}
		h.checkSignals("after ReadSlices reported ErrClosed", true)
		// stays ErrClosed
		h.App.Step()
		h.MustPoll("ReadSlices returning", func() bool { return !h.App.InCall() })
		if last, _ := h.App.Last(); !errors.Is(last.Err, mqtt.ErrClosed) {
			h.Failf("ReadSlices returned %s after it had reported ErrClosed", last)
		}

		// every request returned; pending exchanges got ErrClosed and stay open
		h.PollExchanges()
		for _, c := range early {
			h.MustPoll(fmt.Sprintf("call %d %s returning after Close", c.N, c.Name), func() bool { return h.IsDone(c) })
			if c.Exch != nil && c.Err == nil {
				h.PollExchanges()
				if c.ExchDone {
					// completed before the shutdown? only if the broker acknowledged
					continue
				}
				gotClosed := false
				for _, e := range c.ExchErrs {
					if errors.Is(e, mqtt.ErrClosed) {
						gotClosed = true
					}
				}
				if !gotClosed {
					h.Failf("call %d %s: ReadSlices reported ErrClosed, yet the pending exchange did not receive ErrClosed (got %v)", c.N, c.Name, c.ExchErrs)
				}
			}
		}
		h.closing = true
		h.checkLifecycle(h.messages()) // an exchange closes only through the broker's acknowledgement
		// every method returns ErrClosed now
		after := map[string]func() error{
			"Publish":   func() error { return h.Client.Publish(nil, []byte("x"), "after") },
			"Subscribe": func() error { return h.Client.Subscribe(nil, "after/#") },
			"Unsubscribe": func() error {
				return h.Client.Unsubscribe(nil, "after/#")
			},
			"Ping":               func() error { return h.Client.Ping(nil) },
			"PublishAtLeastOnce": func() error { _, err := h.Client.PublishAtLeastOnce([]byte("x"), "after"); return err },
			"PublishExactlyOnce": func() error { _, err := h.Client.PublishExactlyOnce([]byte("x"), "after"); return err },
			"Disconnect":         func() error { return h.Client.Disconnect(nil) },
		}
		for name, f := range after {
			f := f
			c := h.Go("after-"+name, nil, func() (<-chan error, error) { return nil, f() })
			h.MustPoll(name+" returning on a closed client", func() bool { return h.IsDone(c) })
			if !errors.Is(c.Err, mqtt.ErrClosed) {
				h.Failf("%s on a closed client returned %v, want ErrClosed", name, c.Err)
			}
		}
		c := h.Go("after-Close", nil, func() (<-chan error, error) { return nil, h.Client.Close() })
		h.MustPoll("Close returning on a closed client", func() bool { return h.IsDone(c) })
		if c.Err != nil {
			h.Failf("Close on a closed client returned %v", c.Err)
		}
		noPanics(h)
		// every connection the Dialer handed out is closed
		for _, c := range h.AllConns() {
			if !c.Closed() {
				h.Failf("conn %d was handed out by the Dialer and is still open after shutdown", c.N)
			}
		}
		h.checkSignals("at the end", true)
		// no goroutine left behind
		h.Shutdown(5 * time.Second)
		deadline := time.Now().Add(3 * time.Second)
		for runtime.NumGoroutine() > baseGo && time.Now().Before(deadline) {
			time.Sleep(200 * time.Microsecond)
		}
		if now := runtime.NumGoroutine(); now > baseGo {
			buf := make([]byte, 1<<20)
			buf = buf[:runtime.Stack(buf, true)]
			if dir := os.Getenv("VERIF_DUMP_DIR"); dir != "" {
				os.WriteFile(fmt.Sprintf("%s/goroutines-%d.txt", dir, time.Now().UnixNano()), buf, 0o644)
			}
			h.Failf("%d goroutines are left behind after shutdown (%d before the client existed); client frames: %s", now-baseGo, baseGo, clientFrames(string(buf)))
		}
	})
}

// clientFrames extracts the goroutines which sit in client code.
func clientFrames(dump string) string {
	var out []string
	for _, g := range strings.Split(dump, "\n\n") {
		if strings.Contains(g, "pascaldekloe/mqtt.") {
			lines := strings.Split(g, "\n")
			if len(lines) > 8 {
				lines = lines[:8]
			}
			out = append(out, strings.Join(lines, " | "))
		}
	}
	if len(out) == 0 {
		return "(none in client code)"
	}
	return strings.Join(out, " || ")
}
