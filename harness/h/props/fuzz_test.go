package props

import (
	"bytes"
	"fmt"
	"net"
	"sync/atomic"
	"testing"

	"github.com/pascaldekloe/mqtt"
	"verifh/refmqtt"
	"verifh/stats"
)

var fuzzExecs atomic.Int64

// FuzzC13BrokerBytes is the coverage-guided half of C13 (thorough tier): the
// bytes are a hostile handshake reply (mode 0) or a post-handshake stream for a
// client with the given number of transfers at each stage. The oracle is the
// same differential against the strict reference as in TestC13Hostile.
func FuzzC13BrokerBytes(f *testing.F) {
	// every packet type a broker can send, valid
	seeds := [][]byte{
		{0x20, 2, 0, 0}, {0x20, 2, 1, 0}, {0x20, 2, 0, 5},
		{0x30, 3, 0, 1, 'a'}, {0x32, 6, 0, 1, 'a', 0, 7, 'x'}, {0x34, 6, 0, 1, 'a', 0, 9, 'y'}, {0x3d, 6, 0, 1, 'a', 0, 9, 'y'},
		refmqtt.Ack(refmqtt.PUBACK, 0x8000), refmqtt.Ack(refmqtt.PUBREC, 0xc001), refmqtt.Ack(refmqtt.PUBREL, 0x0009), refmqtt.Ack(refmqtt.PUBCOMP, 0xc000),
		{0x90, 3, 0x60, 0, 1}, {0x90, 5, 0x60, 0, 0, 0x80, 2}, refmqtt.Ack(refmqtt.UNSUBACK, 0x4000), {0xd0, 0},
		// hostile constants
		{0xd0, 0x80, 0x80, 0x80, 0x80, 0}, {0x40, 2, 0, 0}, {0x00, 0}, {0xf0, 0}, {0x10, 0}, {0x80, 2, 0, 1}, {0xe0, 0},
		{0x36, 4, 0, 0, 0, 1}, {0x30, 0xff, 0xff, 0xff, 0x7f}, {0x32, 2, 0, 9},
	}
	for _, s := range seeds {
		for mode := byte(0); mode < 2; mode++ {
			f.Add(mode, byte(1), byte(1), byte(1), byte(0), s)
		}
	}
	// a few conversations
	f.Add(byte(1), byte(2), byte(1), byte(1), byte(2), bytes.Join([][]byte{refmqtt.Ack(refmqtt.PUBACK, 0x8000), refmqtt.Ack(refmqtt.PUBCOMP, 0xc000), refmqtt.Ack(refmqtt.PUBREC, 0xc001), {0x90, 4, 0x60, 0, 1, 1}}, nil))
	f.Fuzz(func(t *testing.T, mode, n1, n2pub, n2rel, sub byte, data []byte) {
		if len(data) > 4096 {
			t.Skip()
		}
		hs := hostileSetup{N1: int(n1 % 4), N2pub: int(n2pub % 3), N2rel: int(n2rel % 3), Sub: int(sub % 4)}
		if mode&2 != 0 {
			hs.ReadBuf = 64
		}
		var label string
		if mode&1 == 0 {
			label, _ = runHostile(t, append([]byte{}, data...), nil, hostileSetup{})
		} else {
			label, _ = runHostile(t, nil, data, hs)
		}
		n := fuzzExecs.Add(1)
		r := stats.For("C13")
		r.Label("native-fuzz-executions", 1)
		if n <= 400 {
			r.Case(fmt.Sprintf("fuzz mode=%d setup %+v data % x", mode, hs, head(data, 64)), true, "fuzz-"+label)
		}
	})
}

// FuzzC15Decode is the coverage-guided half of C15: arbitrary bytes as a
// stored value. decodeValue must not panic; whatever it accepts must be
// exactly what encodeValue produces for the decoded (packet, sequence number).
func FuzzC15Decode(f *testing.F) {
	if !mqtt.VerifExportAvailable {
		f.Skip("the export shim does not compile against this tree")
	}
	f.Add([]byte{})
	f.Add(make([]byte, 11))
	f.Add(make([]byte, 12))
	f.Add(flatten(mqtt.VerifEncodeValue(net.Buffers{[]byte("hello")}, 1)))
	f.Add(flatten(mqtt.VerifEncodeValue(net.Buffers{{0x62, 2, 0xc0, 0}}, 1<<32)))
	f.Add(flatten(mqtt.VerifEncodeValue(nil, ^uint64(0))))
	f.Fuzz(func(t *testing.T, data []byte) {
		packet, seq, err, pan := decodeGuarded(append([]byte(nil), data...))
		r := stats.For("C15")
		r.Label("native-fuzz-executions", 1)
		if pan != "" {
			violate(t, "C15", "decodeValue panics on % x: %s", head(data, 64), pan)
		}
		if len(data) < 12 && err == nil {
			violate(t, "C15", "decodeValue accepts a %d-byte value", len(data))
		}
		if err != nil {
			return
		}
		again := flatten(mqtt.VerifEncodeValue(net.Buffers{packet}, seq))
		if !bytes.Equal(again, data) {
			violate(t, "C15", "decodeValue accepts % x, yet encoding the result gives % x", head(data, 64), head(again, 64))
		}
		want := append(append([]byte(nil), packet...), le64(seq)...)
		if got := be32(ownFNV1a32(want)); !bytes.Equal(got, data[len(data)-4:]) {
			violate(t, "C15", "decodeValue accepts a value whose checksum is not FNV-1a of packet and sequence number")
		}
	})
}
