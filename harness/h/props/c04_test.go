package props

import (
	"testing"

	"pgregory.net/rapid"
)

// C04 — exactly-once reception: delivered once per cycle, handshake always answered.
func TestC04ExactlyOnceReception(t *testing.T) {
	rapid.Check(t, func(rt *rapid.T) { inboundCase(rt, "C04", inboundFlags{c04: true}) })
}

// C07 — inbound acknowledgements go out only after the application took ownership.
func TestC07AckAfterOwnership(t *testing.T) {
	rapid.Check(t, func(rt *rapid.T) { inboundCase(rt, "C07", inboundFlags{c07: true}) })
}
