package props

import (
	"bytes"
	"fmt"
	"strings"
	"testing"
	"time"

	"github.com/pascaldekloe/mqtt"
	"pgregory.net/rapid"
	"verifh/refmqtt"
	"verifh/sim"
	"verifh/stats"
)

// genString draws a string from the classes the property names. The class
// label tells whether the case is a boundary or ill-formed one.
func genString(rt *rapid.T, label string) (s string, class string) {
	class = rapid.SampledFrom([]string{"ascii", "ascii", "utf8-2", "utf8-3", "utf8-4", "mixed", "len-boundary", "len-65535", "len-65536",
		"replacement-char", "empty", "nul", "surrogate", "overlong", "truncated", "beyond-U+10FFFF", "lone-continuation", "fe-ff", "noncharacter", "control"}).Draw(rt, label+"Class")
	base := rapid.StringMatching(`[a-z/]{1,8}`).Draw(rt, label+"Base")
	switch class {
	case "ascii":
		s = base
	case "replacement-char": // U+FFFD is a well-formed character like any other
		s = rapid.SampledFrom([]string{base + "\ufffd", "\ufffd", "\ufffd" + base + "\ufffd\ufffd"}).Draw(rt, label+"Repl")
	case "utf8-2":
		s = base + "é߿\u0080"
	case "utf8-3":
		s = base + "€ࠀ￿퟿"
	case "utf8-4":
		s = base + "𝄞\U00010000\U0010ffff"
	case "mixed":
		s = "é" + base + "€𝄞" + base
	case "len-boundary":
		n := rapid.SampledFrom([]int{1, 2, 127, 128, 129, 255, 256, 16383, 16384}).Draw(rt, label+"Len")
		s = strings.Repeat("b", n)
	case "len-65535":
		s = strings.Repeat("m", 65535-3) + "€" // multi-byte char ending exactly at the limit
	case "len-65536":
		s = strings.Repeat("x", 65536)
		if rapid.Bool().Draw(rt, label+"MultiByte") {
			// over the limit in bytes, under it in characters
			s = strings.Repeat("€", 21846) // 65538 bytes
		}
	case "empty":
		s = ""
	case "nul":
		s = rapid.SampledFrom([]string{base + "\x00" + base, "\x00" + base, base + "\x00", "\x00", "é\x00", base + "/€/" + base + "\x00/c", "𝄞" + base + "\x00"}).Draw(rt, label+"Nul")
	case "surrogate":
		s = base + rapid.SampledFrom([]string{"\xed\xa0\x80", "\xed\xbf\xbf", "\xed\xa0\x80\xed\xb0\x80"}).Draw(rt, label+"Seq")
	case "overlong":
		s = base + rapid.SampledFrom([]string{"\xc0\x80", "\xc1\xbf", "\xe0\x80\x80", "\xe0\x9f\xbf", "\xf0\x80\x80\x80", "\xf0\x8f\xbf\xbf"}).Draw(rt, label+"Seq")
	case "truncated":
		s = base + rapid.SampledFrom([]string{"\xc3", "\xe2\x82", "\xf0\x9d\x84", "\xe2", "\xf0"}).Draw(rt, label+"Seq") + rapid.SampledFrom([]string{"", "a"}).Draw(rt, label+"Tail")
	case "beyond-U+10FFFF":
		s = base + rapid.SampledFrom([]string{"\xf4\x90\x80\x80", "\xf5\x80\x80\x80", "\xf7\xbf\xbf\xbf", "\xf8\x88\x80\x80\x80"}).Draw(rt, label+"Seq")
	case "lone-continuation":
		s = base + rapid.SampledFrom([]string{"\x80", "\xbf", "a\x80b"}).Draw(rt, label+"Seq")
	case "fe-ff":
		s = base + rapid.SampledFrom([]string{"\xfe", "\xff", "\xfe\xff"}).Draw(rt, label+"Seq")
	case "noncharacter":
		s = base + "￾￿\U0001fffe" // tolerated by the client (documented)
	case "control":
		s = base + "\x01\x1f\x7f\u0080\u009f" // tolerated as well
	}
	return s, class
}

// validName is the independent validity predicate for topic names and filters.
func validName(s string) bool {
	return len(s) >= 1 && len(s) <= 65535 && refmqtt.ValidString([]byte(s))
}

// validStr is the predicate for strings which may be empty.
func validStr(s string) bool {
	return len(s) <= 65535 && refmqtt.ValidString([]byte(s))
}

// C09 — emitted packets decode to the request; invalid arguments denied without trace.
func TestC09Requests(t *testing.T) {
	rapid.Check(t, func(rt *rapid.T) {
		cfg := baseConfig()
		cfg.AtLeastOnceMax, cfg.ExactlyOnceMax = 3, 3
		h := newH(rt, "C09", sim.Options{Config: cfg})
		boundary := false
		defer func() { h.finish(boundary) }()
		h.appStep("connect")
		h.SetAutoAck(true)
		c := h.Current()
		if c == nil {
			h.Failf("VERIF-INFRA: no connection")
		}

		n := rapid.IntRange(1, 4).Draw(rt, "requests")
		for i := 0; i < n; i++ {
			method := rapid.SampledFrom([]string{"Publish", "PublishRetained", "PublishAtLeastOnce", "PublishAtLeastOnceRetained", "PublishExactlyOnce", "PublishExactlyOnceRetained",
				"Subscribe", "SubscribeLimitAtMostOnce", "SubscribeLimitAtLeastOnce", "Unsubscribe"}).Draw(rt, "method")
			isPub := strings.HasPrefix(method, "Publish")
			// arguments
			var names []string
			var classes []string
			nn := 1
			oversize := false
			if !isPub {
				nn = rapid.SampledFrom([]int{0, 1, 1, 2, 3, 8, -1}).Draw(rt, "filters")
				if nn < 0 {
					// filters which are fine one by one and exceed the 268,435,455-byte
					// packet limit together (one 65,535-byte string, repeated)
					nn, oversize = 0, true
					boundary = true
					long := strings.Repeat("o", 65535)
					for j := 0; j < 4097; j++ {
						names = append(names, long)
					}
					classes = append(classes, "4097 x 65535 bytes")
				}
			}
			for j := 0; j < nn; j++ {
				s, class := genString(rt, "name")
				names = append(names, s)
				classes = append(classes, class)
				if class != "ascii" {
					boundary = true
				}
			}
			var payload []byte
			if isPub {
				// payload sizes across the remaining-length width boundaries
				head := 2 + len(names[0])
				if method != "Publish" && method != "PublishRetained" {
					head += 2
				}
				pclasses := []string{"small", "small", "w1", "w2", "w3", "empty", "nil"}
				if thorough || rapid.IntRange(0, 7).Draw(rt, "overMaxAllowed") == 0 {
					// (rare in the quick tier: 256 MiB of zeroes per case)
					pclasses = append(pclasses, "over-max")
				}
				overMax := false
				switch rapid.SampledFrom(pclasses).Draw(rt, "payloadClass") {
				case "over-max": // one byte beyond the 268,435,455-byte packet limit
					payload = make([]byte, refmqtt.MaxRemaining-head+1)
					overMax = true
					boundary = true
				case "small":
					payload = bytes.Repeat([]byte{'p'}, rapid.IntRange(1, 50).Draw(rt, "payloadLen"))
				case "w1":
					payload = make([]byte, max0(127+rapid.IntRange(-1, 1).Draw(rt, "d")-head))
					boundary = true
				case "w2":
					payload = make([]byte, max0(16383+rapid.IntRange(-1, 1).Draw(rt, "d")-head))
					boundary = true
				case "w3":
					payload = make([]byte, max0(2097151+rapid.IntRange(-1, 1).Draw(rt, "d")-head))
					boundary = true
				case "empty":
					payload = []byte{}
				}
				if !overMax {
					for k := range payload {
						payload[k] = byte(k * 7)
					}
				}
				if overMax {
					names = names[:1]
				}
				_ = overMax
			}
			valid := nn > 0
			if oversize {
				valid = false
			}
			if isPub && len(payload) > 0 && 2+len(names[0])+len(payload) > refmqtt.MaxRemaining-2 {
				head := 2 + len(names[0])
				if method != "Publish" && method != "PublishRetained" {
					head += 2
				}
				if head+len(payload) > refmqtt.MaxRemaining {
					valid = false
				}
			}
			for _, s := range names {
				if !validName(s) {
					valid = false
				}
			}
			size := 0
			if !isPub && !oversize {
				size = 2
				for _, s := range names {
					size += 2 + len(s)
					if method != "Unsubscribe" {
						size++
					}
				}
				if size > refmqtt.MaxRemaining {
					valid = false
				}
			}
			h.Act("%s names=%v payload=%d valid=%t", method, classes, len(payload), valid)

			outBefore := c.OutLen()
			// one request in six meets a slow peer: the write deadline expires
			// once, 1-3 bytes into the packet (tolerated: the client goes on
			// with the remainder); what is emitted must be that one packet
			if valid && rapid.IntRange(0, 5).Draw(rt, "writeExpiresAfterProgress") == 0 {
				d := rapid.IntRange(1, 3).Draw(rt, "expiresAt")
				c.ArmWrite(sim.WFault{Off: outBefore + d, Kind: sim.WTimeoutProgress})
				h.Act("write deadline expires once, %d bytes into the next packet", d)
				h.label("write-expiry-after-progress-inside-the-packet")
				boundary = true
			}
			opsBefore := h.Store.NOps()
			q1Before, q2Before := mqtt.VerifQueueLen(h.Client)
			slotsBefore := mqtt.VerifUnorderedSlots(h.Client)
			cl := h.Client
			call := h.Go(method, nil, func() (<-chan error, error) {
				switch method {
				case "Publish":
					return nil, cl.Publish(nil, payload, names[0])
				case "PublishRetained":
					return nil, cl.PublishRetained(nil, payload, names[0])
				case "PublishAtLeastOnce":
					return cl.PublishAtLeastOnce(payload, names[0])
				case "PublishAtLeastOnceRetained":
					return cl.PublishAtLeastOnceRetained(payload, names[0])
				case "PublishExactlyOnce":
					return cl.PublishExactlyOnce(payload, names[0])
				case "PublishExactlyOnceRetained":
					return cl.PublishExactlyOnceRetained(payload, names[0])
				case "Subscribe":
					return nil, cl.Subscribe(nil, names...)
				case "SubscribeLimitAtMostOnce":
					return nil, cl.SubscribeLimitAtMostOnce(nil, names...)
				case "SubscribeLimitAtLeastOnce":
					return nil, cl.SubscribeLimitAtLeastOnce(nil, names...)
				}
				return nil, cl.Unsubscribe(nil, names...)
			})
			h.MustPoll(method+" returning", func() bool { return h.IsDone(call) })
			err := call.Err
			if !valid {
				if !mqtt.IsDeny(err) {
					h.Failf("%s with invalid arguments (%v, %d names) returned %v, want an IsDeny error", method, classes, nn, err)
				}
				// no trace
				if c.OutLen() != outBefore {
					h.Failf("%s was denied (%v), yet %d bytes were written", method, err, c.OutLen()-outBefore)
				}
				if h.Store.NOps() != opsBefore {
					h.Failf("%s was denied (%v), yet the Persistence was touched", method, err)
				}
				q1, q2 := mqtt.VerifQueueLen(h.Client)
				if q1 != q1Before || q2 != q2Before || mqtt.VerifUnorderedSlots(h.Client) != slotsBefore {
					h.Failf("%s was denied (%v), yet capacity was consumed (queues %d/%d → %d/%d, slots %d → %d)", method, err, q1Before, q2Before, q1, q2, slotsBefore, mqtt.VerifUnorderedSlots(h.Client))
				}
				continue
			}
			if mqtt.IsDeny(err) {
				h.Failf("%s with valid arguments (%v) was refused with the IsDeny error %v", method, classes, err)
			}
			if isErr(err, mqtt.ErrMax) {
				continue // the small queue is full; nothing emitted
			}
			if err != nil {
				h.Failf("%s with valid arguments on a healthy connection returned %v", method, err)
			}
			// the emitted packet decodes to exactly the requested fields
			out := c.OutCopy()[outBefore:]
			p, size2, derr := refmqtt.Decode(out)
			if derr != nil {
				h.Failf("%s emitted a packet which the strict decoder rejects: %v; % x", method, derr, head(out, 40))
			}
			if enc := refmqtt.Encode(p); !bytes.Equal(enc, out[:size2]) {
				h.Failf("%s emitted a packet which is not in canonical encoding: % x", method, head(out, 40))
			}
			switch {
			case isPub:
				wantQoS := byte(0)
				if strings.HasPrefix(method, "PublishAtLeastOnce") {
					wantQoS = 1
				} else if strings.HasPrefix(method, "PublishExactlyOnce") {
					wantQoS = 2
				}
				if p.Type != refmqtt.PUBLISH || p.QoS != wantQoS || p.Retain != strings.HasSuffix(method, "Retained") || p.Dup ||
					p.Topic != names[0] || !bytes.Equal(p.Payload, payload) {
					h.Failf("%s(%d-byte payload, %d-byte topic) emitted %s", method, len(payload), len(names[0]), p)
				}
				if wantQoS != 0 {
					// what was saved equals what was sent
					var saved []byte
					for _, op := range h.Store.OpsCopy()[opsBefore:] {
						if op.Kind == 'S' && op.Err == nil && op.Key == uint(p.ID) {
							saved = stripTrailer(op.Val)
							break
						}
					}
					if !bytes.Equal(saved, out[:size2]) {
						h.Failf("%s: the saved record differs from the packet sent", method)
					}
				}
			case method == "Unsubscribe":
				if p.Type != refmqtt.UNSUBSCRIBE || strings.Join(p.Filters, "\x00") != strings.Join(names, "\x00") {
					h.Failf("Unsubscribe(%d filters) emitted %s", len(names), p)
				}
			default:
				wantLevel := map[string]byte{"Subscribe": 2, "SubscribeLimitAtMostOnce": 0, "SubscribeLimitAtLeastOnce": 1}[method]
				ok := p.Type == refmqtt.SUBSCRIBE && strings.Join(p.Filters, "\x00") == strings.Join(names, "\x00")
				for _, l := range p.Levels {
					if l != wantLevel {
						ok = false
					}
				}
				if !ok {
					h.Failf("%s(%d filters) emitted %s", method, len(names), p)
				}
			}
			// acknowledgements flow (AutoAck) so that capacity frees up
			h.App.Step()
			h.SettleReader("acknowledgements")
		}
		noPanics(h)
	})
}

func max0(n int) int {
	if n < 0 {
		return 0
	}
	return n
}

// C09 — CONNECT reflects every Config combination and client identifier;
// illegal ones are refused by the constructor without trace.
func TestC09Connect(t *testing.T) {
	rapid.Check(t, func(rt *rapid.T) {
		cfg := baseConfig()
		boundary := false
		id, idClass := genString(rt, "clientID")
		if rapid.Bool().Draw(rt, "plainID") {
			id, idClass = rapid.StringMatching(`[a-zA-Z0-9]{0,23}`).Draw(rt, "clientIDPlain"), "ascii"
		}
		valid := validStr(id)
		var classes []string
		classes = append(classes, "id:"+idClass)
		cfg.CleanSession = rapid.Bool().Draw(rt, "clean")
		cfg.KeepAlive = uint16(rapid.SampledFrom([]int{0, 1, 255, 256, 65535}).Draw(rt, "keepAlive"))
		if rapid.Bool().Draw(rt, "user") {
			s, class := genString(rt, "user")
			cfg.UserName = s
			classes = append(classes, "user:"+class)
			if !validStr(s) {
				valid = false
			}
		}
		switch rapid.SampledFrom([]string{"none", "none", "empty", "short", "token", "max", "over"}).Draw(rt, "password") {
		case "token":
			cfg.Password = bytes.Repeat([]byte{'t', 0, 0xff, '.'}, rapid.IntRange(64, 300).Draw(rt, "tokenQuads"))
		case "empty":
			cfg.Password = []byte{}
		case "short":
			cfg.Password = []byte("secret\x00\xff")
		case "max":
			cfg.Password = make([]byte, 65535)
			boundary = true
		case "over":
			cfg.Password = make([]byte, 65536)
			valid = false
			boundary = true
		}
		if rapid.Bool().Draw(rt, "will") {
			s, class := genString(rt, "willTopic")
			cfg.Will.Topic = s
			classes = append(classes, "will:"+class)
			switch rapid.SampledFrom([]string{"nil", "empty", "short", "max", "over"}).Draw(rt, "willMessage") {
			case "empty":
				cfg.Will.Message = []byte{}
			case "short":
				cfg.Will.Message = []byte("bye")
			case "max":
				cfg.Will.Message = make([]byte, 65535)
			case "over":
				cfg.Will.Message = make([]byte, 65536)
				valid = false
			}
			if cfg.Will.Message != nil {
				if !validName(s) {
					valid = false
				}
			} else if !validStr(s) {
				valid = false
			}
			cfg.Will.Retain = rapid.Bool().Draw(rt, "willRetain")
			cfg.Will.AtLeastOnce = rapid.Bool().Draw(rt, "will1")
			cfg.Will.ExactlyOnce = rapid.Bool().Draw(rt, "will2")
		}
		for _, cl := range classes {
			if !strings.HasSuffix(cl, ":ascii") {
				boundary = true
			}
		}
		adopt := rapid.Bool().Draw(rt, "viaAdoptSession")
		var w *sim.World
		if adopt && validStr(id) {
			// a session initialised earlier with a plain Config, adopted with this one
			w0 := sim.New(rt, sim.Options{Config: baseConfig(), ClientID: id, Prop: "C09"})
			w0.Shutdown(2 * time.Second)
			content := w0.Store.Content()
			if rapid.Bool().Draw(rt, "junkRecordInTheStore") {
				// (something AdoptSession would clean up: a refused call must leave it alone)
				content[0x8003] = []byte("no record at all")
			}
			w = sim.New(rt, sim.Options{Config: cfg, Adopt: true, Store: content, ClientID: id, Prop: "C09"})
		} else {
			adopt = false
			w = sim.New(rt, sim.Options{Config: cfg, ClientID: id, Prop: "C09"})
		}
		defer w.Shutdown(2 * time.Second)
		desc := fmt.Sprintf("adopt=%t %v clean=%t keepAlive=%d password=%d will=%d valid=%t", adopt, classes, cfg.CleanSession, cfg.KeepAlive, len(cfg.Password), len(cfg.Will.Message), valid)
		w.Script = []string{desc}
		if !valid {
			if w.Fatal == nil {
				w.Failf("the constructor accepted an illegal Config or client identifier: %s", desc)
			}
			if w.Client != nil {
				w.Failf("the constructor returned a client together with an error")
			}
			for _, op := range w.Store.OpsCopy() {
				if op.Kind == 'S' || op.Kind == 'D' {
					w.Failf("the constructor refused the Config (%v), yet it changed the Persistence", w.Fatal)
				}
			}
			stats.For("C09").Case(desc, boundary, "connect-invalid")
			return
		}
		if w.Fatal != nil {
			w.Failf("the constructor refused a legal Config and client identifier: %v; %s", w.Fatal, desc)
		}
		w.App.Step()
		w.MustPoll("first connect", func() bool { return w.ReaderWaiting() || !w.App.InCall() })
		cs := w.AllConns()
		if len(cs) == 0 {
			w.Failf("no connection")
		}
		out := cs[0].OutCopy()
		p, n, err := refmqtt.Decode(out)
		if err != nil || p.Type != refmqtt.CONNECT {
			w.Failf("the first packet is no well-formed CONNECT: %v; % x", err, head(out, 60))
		}
		if !bytes.Equal(refmqtt.Encode(p), out[:n]) {
			w.Failf("CONNECT is not in canonical encoding")
		}
		if why := connectMatches(p.Connect, &cfg, id); why != "" {
			w.Failf("CONNECT does not reflect the Config: %s; %s", why, desc)
		}
		if p.Connect.CleanSession != cfg.CleanSession {
			w.Failf("CONNECT clean session %t, Config %t", p.Connect.CleanSession, cfg.CleanSession)
		}
		stats.For("C09").Case(desc, boundary, "connect-valid")
	})
}
