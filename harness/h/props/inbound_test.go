package props

import (
	"fmt"
	"sort"
	"time"

	"github.com/pascaldekloe/mqtt"
	"pgregory.net/rapid"
	"verifh/refmqtt"
	"verifh/sim"
	"verifh/stats"
)

// wirePacket is a complete packet the client wrote, with the event at which
// its last byte was accepted.
type wirePacket struct {
	Conn int
	Seq  int
	P    *refmqtt.Packet
}

func (h *H) wirePackets() []wirePacket { return wirePacketsFrom(h.Events()) }

// wirePacketsFrom derives the complete outbound packets from one snapshot of
// the event log (consistent with everything else derived from it).
func wirePacketsFrom(events []sim.Event) []wirePacket {
	type w struct{ off, n, seq int }
	outs := map[int][]byte{}
	wss := map[int][]w{}
	var conns []int
	for _, e := range events {
		if e.Kind == sim.EvWrite {
			if _, ok := outs[e.Conn]; !ok {
				conns = append(conns, e.Conn)
			}
			wss[e.Conn] = append(wss[e.Conn], w{len(outs[e.Conn]), len(e.Data), e.Seq})
			outs[e.Conn] = append(outs[e.Conn], e.Data...)
		}
	}
	var all []wirePacket
	for _, conn := range conns {
		packets, _, _ := refmqtt.DecodeAll(outs[conn])
		ws := wss[conn]
		end := 0
		wi := 0
		for _, p := range packets {
			end += len(p.Raw)
			for wi < len(ws) && ws[wi].off+ws[wi].n < end {
				wi++
			}
			seq := 1 << 30
			if wi < len(ws) {
				seq = ws[wi].seq
			}
			all = append(all, wirePacket{conn, seq, p})
		}
	}
	sort.SliceStable(all, func(i, j int) bool { return all[i].Seq < all[j].Seq })
	return all
}

// inboundDelivery is a PUBLISH the broker put on a connection.
type inboundDelivery struct {
	Conn     int
	StartOff int // inbound offsets on the connection
	EndOff   int
	P        *refmqtt.Packet
	Seq      int // event of the broker-send
}

func (h *H) inboundPackets() []inboundDelivery { return inboundPacketsFrom(h.Events()) }

func inboundPacketsFrom(events []sim.Event) []inboundDelivery {
	var l []inboundDelivery
	perConn := map[int][]byte{}
	base := map[int]int{}
	seqAt := map[int][]struct{ off, seq int }{}
	for _, e := range events {
		if e.Kind != sim.EvBrokerSend {
			continue
		}
		if _, ok := base[e.Conn]; !ok {
			base[e.Conn] = 0
		}
		seqAt[e.Conn] = append(seqAt[e.Conn], struct{ off, seq int }{len(perConn[e.Conn]), e.Seq})
		perConn[e.Conn] = append(perConn[e.Conn], e.Data...)
	}
	for conn, data := range perConn {
		off := 0
		for off < len(data) {
			p, n, err := refmqtt.Decode(data[off:])
			if err != nil {
				break
			}
			seq := 0
			for _, s := range seqAt[conn] {
				if s.off <= off {
					seq = s.seq
				}
			}
			l = append(l, inboundDelivery{Conn: conn, StartOff: off, EndOff: off + n, P: p, Seq: seq})
			off += n
		}
	}
	sort.SliceStable(l, func(i, j int) bool { return l[i].Seq < l[j].Seq })
	return l
}

// inboundFlags select the clauses to assert.
type inboundFlags struct {
	c07 bool // acknowledgement timing and multiset
	c04 bool // exactly-once reception
}

// checkInbound verifies the inbound clauses over this generation's history.
func (h *H) checkInbound(f inboundFlags, final bool) (ownedAtEnd map[uint16]bool) {
	// one snapshot of the event log; everything else is derived from it or cut
	// to it, as the client may still be running
	events := h.Events()
	wire := wirePacketsFrom(events)
	inbound := inboundPacketsFrom(events)
	ops := h.Store.OpsCopy()
	for len(ops) != 0 && ops[len(ops)-1].Seq >= len(events) {
		ops = ops[:len(ops)-1]
	}
	nResults := 0
	for _, e := range events {
		if e.Kind == sim.EvAppRet {
			nResults = e.N + 1
		}
	}
	_ = nResults

	// marker presence over time
	marker := map[uint16]bool{}
	for k := range h.Store.SnapshotAt(0) {
		if k&0x10000 != 0 {
			marker[uint16(k)] = true
		}
	}
	// returns: which message each delivered
	type ret struct {
		seq   int
		topic string
		id    uint16
		qos   byte
	}
	idOf := func(topic string) (uint16, byte, bool) {
		for _, w := range h.worlds() {
			for _, m := range w.Broker.Out {
				if m.Topic == topic {
					return m.ID, m.QoS, true
				}
			}
		}
		return 0, 0, false
	}

	// owned: the application took ownership of the exactly-once message with
	// this identifier (marker Save succeeded, here or before the restart) and
	// the broker's PUBREL has not reached the client yet
	owned := map[uint16]bool{}
	for id := range marker {
		owned[id] = true
	}
	for id := range h.inheritedOwned {
		owned[id] = true
	}
	wi := 0
	var lastRet *ret        // latest return of a level ≥ 1 message
	var lastStart = -1      // latest app-start
	acked := map[int]bool{} // returns (by seq) whose acknowledgement was seen
	delivered := map[int]int{}
	var rets []*ret
	suppressedOn := map[int]map[uint16]int{} // conn → id → suppressed duplicates delivered
	recsOn := map[int]map[uint16]int{}
	compsOn := map[int]map[uint16]int{}
	relsOn := map[int]map[uint16]int{}
	bump := func(m map[int]map[uint16]int, conn int, id uint16) {
		if m[conn] == nil {
			m[conn] = map[uint16]int{}
		}
		m[conn][id]++
	}
	// inbound packets become "delivered" once the connection handed over their last byte
	ii := map[int]int{} // next inbound packet index per connection (in per-conn order)
	perConnInbound := map[int][]inboundDelivery{}
	for _, d := range inbound {
		perConnInbound[d.Conn] = append(perConnInbound[d.Conn], d)
	}
	for c := range perConnInbound {
		sort.SliceStable(perConnInbound[c], func(i, j int) bool { return perConnInbound[c][i].StartOff < perConnInbound[c][j].StartOff })
	}

	handleWire := func(wp wirePacket) {
		p := wp.P
		switch p.Type {
		case refmqtt.PUBACK, refmqtt.PUBREC:
			bumpRec := p.Type == refmqtt.PUBREC
			if bumpRec {
				bump(recsOn, wp.Conn, p.ID)
			}
			// whose acknowledgement is it? the latest unacknowledged return of that identifier
			var r *ret
			for i := len(rets) - 1; i >= 0; i-- {
				if rets[i].id == p.ID && rets[i].seq < wp.Seq && !acked[rets[i].seq] && (rets[i].qos == 1) == (p.Type == refmqtt.PUBACK) {
					r = rets[i]
					break
				}
			}
			if r == nil {
				if f.c07 && !(bumpRec && suppressedOn[wp.Conn][p.ID] > 0) {
					h.Failf("conn %d: %s acknowledges a message which ReadSlices did not return (and no suppressed duplicate explains it)", wp.Conn, p)
				}
				return
			}
			acked[r.seq] = true
			if p.Type == refmqtt.PUBREC {
				// PUBREC for a returned message: the application took
				// ownership, whatever the implementation recorded
				owned[p.ID] = true
			}
			if f.c07 {
				// the application must have invoked ReadSlices again in between
				again := false
				for _, e := range events {
					if e.Kind == sim.EvAppStart && e.Seq > r.seq && e.Seq < wp.Seq {
						again = true
						break
					}
				}
				if !again {
					h.Failf("conn %d: %s was written at event %d while the application still holds the message returned at event %d (no ReadSlices invocation in between)", wp.Conn, p, wp.Seq, r.seq)
				}
			}
		case refmqtt.PUBCOMP:
			bump(compsOn, wp.Conn, p.ID)
		}
	}

	var tentative uint16
	tentativeSet := false
	oi := 0
	for _, e := range events {
		for wi < len(wire) && wire[wi].Seq <= e.Seq {
			handleWire(wire[wi])
			wi++
		}
		for oi < len(ops) && ops[oi].Seq <= e.Seq {
			op := ops[oi]
			oi++
			if op.Err != nil && op.Kind == 'S' && tentativeSet && op.Key == 0x10000|uint(tentative) {
				delete(owned, tentative) // the documented BUG: recovery is up to a later ReadSlices
				tentativeSet = false
			}
			if op.Err == nil && op.Key&0x10000 != 0 {
				switch op.Kind {
				case 'S':
					marker[uint16(op.Key)] = true
					owned[uint16(op.Key)] = true
				case 'D':
					delete(marker, uint16(op.Key))
				}
			}
		}
		switch e.Kind {
		case sim.EvAppStart:
			// Ownership as the property states it: the application invokes
			// ReadSlices again after an exactly-once message was returned to it.
			// (Excepted, as documented: the marker Save of that invocation fails.)
			if lastRet != nil && lastRet.qos == 2 && lastRet.seq > lastStart && !owned[lastRet.id] {
				owned[lastRet.id] = true
				tentative, tentativeSet = lastRet.id, true
			}
			lastStart = e.Seq
		case sim.EvRead:
			delivered[e.Conn] += len(e.Data)
			l := perConnInbound[e.Conn]
			for ii[e.Conn] < len(l) {
				d := l[ii[e.Conn]]
				// a PUBLISH is judged once its header fields arrived (the
				// payload of a big message follows later)
				need := d.EndOff
				if d.P.Type == refmqtt.PUBLISH {
					need -= len(d.P.Payload)
				}
				if need > delivered[e.Conn] {
					break
				}
				ii[e.Conn]++
				switch {
				case d.P.Type == refmqtt.PUBLISH && d.P.QoS == 2 && (marker[d.P.ID] || owned[d.P.ID]):
					// (owned without marker yet: the acknowledgement flush, which
					// saves it, precedes the processing of what was read along)
					bump(suppressedOn, e.Conn, d.P.ID)
				case d.P.Type == refmqtt.PUBREL:
					bump(relsOn, e.Conn, d.P.ID)
					delete(owned, d.P.ID) // the cycle ends
				}
			}
		case sim.EvAppRet:
			tentativeSet = false
			r := h.App.Result(e.N)
			topic := string(r.Topic)
			if r.Big {
				topic = r.BigTopic
			}
			if r.Err != nil && !r.Big {
				break
			}
			id, qos, ok := idOf(topic)
			if !ok {
				h.Failf("ReadSlices returned a message with topic %q which the broker never sent", topic)
			}
			if qos == 0 {
				break
			}
			if f.c04 && qos == 2 && owned[id] {
				h.Failf("ReadSlices returned exactly-once message %q (identifier %#04x) again at event %d although the application had taken ownership (it invoked ReadSlices again after the first return) and the broker's PUBREL has not ended the cycle", topic, id, e.Seq)
			}
			nr := &ret{seq: e.Seq, topic: topic, id: id, qos: qos}
			rets = append(rets, nr)
			lastRet = nr
		case sim.EvReadPark:
			if e.N < 4 {
				break // CONNACK outstanding: the acknowledgement flush comes after connect
			}
			// the read routine waits for input: nothing may be owed
			if lastRet != nil && lastRet.seq < lastStart && !acked[lastRet.seq] && (f.c07 || f.c04 && lastRet.qos == 2) {
				h.Failf("the application invoked ReadSlices again at event %d, the read routine now waits for input (event %d), yet %q (identifier %#04x, level %d, returned at event %d) was not acknowledged", lastStart, e.Seq, lastRet.topic, lastRet.id, lastRet.qos, lastRet.seq)
			}
			if f.c04 {
				for id, n := range suppressedOn[e.Conn] {
					if recsOn[e.Conn][id] < n {
						h.Failf("conn %d: %d retransmitted PUBLISH %#04x were suppressed as duplicates, yet only %d PUBREC went out before the read routine waits for input again", e.Conn, n, id, recsOn[e.Conn][id])
					}
				}
				for id, n := range relsOn[e.Conn] {
					if compsOn[e.Conn][id] < n {
						h.Failf("conn %d: %d PUBREL %#04x were received, yet only %d PUBCOMP went out before the read routine waits for input again", e.Conn, n, id, compsOn[e.Conn][id])
					}
				}
			}
		}
	}
	for ; wi < len(wire); wi++ {
		handleWire(wire[wi])
	}
	if final && (f.c04 || f.c07) {
		// every exactly-once message the broker completed was returned at least once
		// (C04: delivered once per cycle; C07: none acknowledged without having been
		// returned — a message swallowed as a "duplicate" of a finished cycle, because a
		// marker outlived it, is acknowledged all the way without ever being returned)
		returned := map[string]bool{}
		for _, w := range h.worlds() {
			for i := range w.App.Results {
				r := w.App.Results[i]
				if r.Big {
					returned[r.BigTopic] = true
				} else if r.Err == nil {
					returned[string(r.Topic)] = true
				}
			}
		}
		for _, w := range h.worlds() {
			for _, m := range w.Broker.Out {
				// (level 1 is left out: a second PUBACK for a re-delivered message can
				// hit a reused identifier, which is the protocol's hazard, not the client's)
				if m.QoS == 2 && m.Stage == refmqtt.StageComplete && !returned[m.Topic] && !w.Broker.DroppedWithSession(m) {
					h.Failf("the broker completed the level-%d transfer of %q (identifier %#04x), yet ReadSlices never returned that message", m.QoS, m.Topic, m.ID)
				}
			}
		}
	}
	if final && f.c07 {
		for _, r := range rets {
			if !acked[r.seq] {
				h.Failf("message %q (identifier %#04x, level %d) was returned at event %d and never acknowledged, although the application kept reading in a healthy environment", r.topic, r.id, r.qos, r.seq)
			}
		}
	}
	return owned
}

// inboundCase drives one inbound history.
func inboundCase(rt *rapid.T, prop string, f inboundFlags) {
	cfg := baseConfig()
	// (the clean-session flag goes out with the very first CONNECT only: the
	// session lives on over reconnects like any other; a restart adopts without)
	cfg.CleanSession = rapid.IntRange(0, 2).Draw(rt, "cleanSessionAtFirstConnect") == 0
	cfgRestart := cfg
	cfgRestart.CleanSession = false
	bufSize := rapid.SampledFrom([]int{0, 0, 0, 256, 1024}).Draw(rt, "readBuf")
	if bufSize != 0 {
		old := mqtt.VerifSetReadBufSize(bufSize)
		defer mqtt.VerifSetReadBufSize(old)
	} else {
		bufSize = 128 * 1024
	}
	h := newH(rt, prop, sim.Options{Config: cfg})
	// what the application does with a BigMessage: ReadAll, or nothing (the
	// next ReadSlices then discards the payload)
	skipBig := rapid.Bool().Draw(rt, "applicationSkipsBigMessages")
	if skipBig {
		h.App.ReadBig = func(int) bool { return false }
	}
	h.Act("readBuf=%d skipBig=%t", bufSize, skipBig)
	holds, reconnectBetween, retransmitted, restarts, markerFaults := 0, 0, 0, 0, 0
	var fc faultCounters
	h.Act("appStep")
	h.appStep("first connect")

	levels := []int{0, 1, 2}
	if f.c04 && !f.c07 {
		levels = []int{2, 2, 2, 1}
	}
	check := func(final bool) {
		noPanics(h)
		h.checkWire()
		h.checkInbound(f, final)
	}
	nextBase := uint16(1)

	actions := map[string]func(*rapid.T){
		"brokerSend": func(rt *rapid.T) {
			c := h.Current()
			if c == nil || !c.Accepted() || c.Blackholed() {
				rt.Skip("no accepted connection")
			}
			qos := byte(rapid.SampledFrom(levels).Draw(rt, "qos"))
			size := rapid.SampledFrom([]int{0, 1, 20, 20, 20, bufSize + 10}).Draw(rt, "payloadLen")
			if size > 4096+10 {
				size = 20
			}
			switch rapid.IntRange(0, 6).Draw(rt, "highID") {
			case 0:
				nextBase = uint16(rapid.IntRange(0x8000, 0xfff0).Draw(rt, "idBase"))
			case 1:
				// an identifier which differs from one in flight in the top bits only
				nextBase = 1
				var inflight []uint16
				h.WithLock(func() {
					for _, m := range h.Broker.Sess.Inflight {
						inflight = append(inflight, m.ID)
					}
				})
				if len(inflight) != 0 {
					id := inflight[rapid.IntRange(0, len(inflight)-1).Draw(rt, "aliasOf")]
					nextBase = id ^ uint16(rapid.SampledFrom([]int{0x4000, 0x8000, 0xc000}).Draw(rt, "aliasBits"))
					if nextBase == 0 {
						nextBase = 1
					}
					h.label("inbound-identifier-aliasing-one-in-flight-modulo-0x4000")
				}
			default:
				nextBase = 1
			}
			h.brokerSendBase(qos, size, nextBase)
		},
		"appStep": func(rt *rapid.T) {
			h.Act("appStep")
			h.appStep("appStep")
		},
		// a message larger than the read buffer which the application
		// skips; the connection is lost while the next ReadSlices discards
		// the payload (its tail never arrives)
		"bigSkippedThenLoss": func(rt *rapid.T) {
			c := h.Current()
			if !skipBig || bufSize > 4096 || c == nil || !c.Accepted() || c.Blackholed() || !h.App.InCall() || !h.ReaderWaiting() {
				rt.Skip("needs a small read buffer, an application which skips, and a reader waiting for input")
			}
			qos := byte(rapid.SampledFrom(levels).Draw(rt, "qos"))
			size := bufSize + rapid.IntRange(20, 300).Draw(rt, "beyond")
			cut := rapid.IntRange(1, 15).Draw(rt, "tailMissing")
			kind := rapid.SampledFrom([]int{sim.RReset, sim.REOF, sim.RExpiry}).Draw(rt, "kind")
			off := c.InEnqueued() + size - cut // inside the payload's tail (the header adds a few bytes)
			c.ArmRead(sim.RFault{Off: off, Kind: kind})
			h.Act("bigSkippedThenLoss: read fault %s %d bytes before the end of the next message's payload", rfaultNames[kind], cut)
			nextBase = 1
			h.brokerSendBase(qos, size, nextBase)
			h.Act("appStep")
			h.appStep("discard of the skipped payload")
			reconnectBetween++
			h.label("big-message-skipped-then-loss-inside-its-payload")
		},
		"hold": func(rt *rapid.T) {
			// the application keeps the returned slices for a while: the
			// other actions run meanwhile
			if h.App.InCall() {
				rt.Skip("nothing returned")
			}
			holds++
			h.Act("hold")
		},
		"releaseOwed": func(rt *rapid.T) {
			c := h.Current()
			if c == nil || len(c.Owed()) == 0 {
				rt.Skip("nothing owed")
			}
			h.releaseAcks(rapid.IntRange(1, 3).Draw(rt, "n"))
		},
		"break": func(rt *rapid.T) {
			c := h.Current()
			if c == nil {
				rt.Skip("no connection")
			}
			h.Act("break conn=%d", c.N)
			c.Break(rapid.Bool().Draw(rt, "graceful"))
			reconnectBetween++
			h.settleInbound()
		},
		"loseTail": func(rt *rapid.T) {
			c := h.Current()
			if c == nil || c.Blackholed() {
				rt.Skip("no connection")
			}
			// what the client writes from now on never reaches the broker
			h.Act("loseTail conn=%d", c.N)
			c.Blackhole(c.OutLen())
			fc.loseTail++
		},
		// the write of the PUBCOMP itself fails (the PUBREL was handled, its
		// marker is gone, the PUBCOMP stays owed for the next connection);
		// the identifier is the broker's to use again once it has the PUBCOMP
		"pubcompWriteFails": func(rt *rapid.T) {
			c := h.Current()
			if c == nil || !c.Accepted() || c.Blackholed() || c.WritersParked() > 0 || !h.App.InCall() || !h.ReaderWaiting() {
				rt.Skip("needs the read routine waiting for input on an accepted connection")
			}
			idx := -1
			for i, o := range c.Owed() {
				if o.Kind == refmqtt.PUBREL {
					idx = i
					break
				}
			}
			if idx < 0 {
				rt.Skip("no PUBREL owed")
			}
			d := rapid.IntRange(0, 3).Draw(rt, "cut")
			kind := rapid.SampledFrom([]int{sim.WReset, sim.WTimeout}).Draw(rt, "kind")
			h.Act("pubcompWriteFails: write fault %s at +%d, then the PUBREL", wfaultNames[kind], d)
			c.ArmWrite(sim.WFault{Off: c.OutLen() + d, Kind: kind})
			c.Release(idx)
			h.settleInbound()
			reconnectBetween++
			h.Act("appStep")
			h.appStep("reconnect with the PUBCOMP owed")
			h.label("pubcomp-write-failed")
		},
		"ackWriteFault": func(rt *rapid.T) {
			c := h.Current()
			if c == nil {
				rt.Skip("no connection")
			}
			d := rapid.IntRange(0, 3).Draw(rt, "cut")
			kind := rapid.SampledFrom([]int{sim.WReset, sim.WTimeout, sim.WTimeoutProgress}).Draw(rt, "kind")
			h.armWrite(d, kind)
		},
		"outbound": func(rt *rapid.T) {
			switch rapid.IntRange(0, 2).Draw(rt, "req") {
			case 0:
				h.pub(0, false)
			case 1:
				h.sub(1, 1)
			case 2:
				h.pub(1, false)
			}
		},
		"markerFault": func(rt *rapid.T) {
			kind := rapid.SampledFrom([]byte{'S', 'L', 'D'}).Draw(rt, "op")
			h.Store.FailNext(kind)
			h.Act("storeFault next %c fails", kind)
			markerFaults++
		},
		"restart": func(rt *rapid.T) {
			if h.gen >= 2 {
				rt.Skip("enough generations")
			}
			// the documented BUG combination: a marker Save failed and the
			// process stops before ReadSlices recovered
			for _, op := range h.Store.OpsCopy() {
				if op.Kind == 'S' && op.Err != nil && op.Key&0x10000 != 0 {
					stats.For(prop).Exclude("documented-BUG: marker Save failed and stop before recovery")
					rt.Skip("excluded by the property")
				}
			}
			check(false)
			// an orderly end: Close from another goroutine while the
			// application holds what ReadSlices returned last, then the read
			// loop invokes ReadSlices once more (which takes ownership) and
			// learns of the end
			orderly := rapid.Bool().Draw(rt, "closeThenReadOnceMore") && !h.App.InCall()
			if orderly {
				h.Act("close, then ReadSlices once more")
				cl := h.Go("close", &Req{Kind: "close"}, func() (<-chan error, error) { return nil, h.Client.Close() })
				h.MustPoll("Close returning", func() bool { return h.IsDone(cl) })
				h.App.Step()
				h.MustPoll("ReadSlices returning after Close", func() bool { return !h.App.InCall() })
				h.label("close-then-read-once-more-then-restart")
			}
			h.Shutdown(5 * time.Second)
			ownedNow := h.checkInbound(f, false)
			n := h.Store.NOps()
			k := n - rapid.IntRange(0, 3).Draw(rt, "back")
			if k < 2 || orderly {
				k = n
			}
			late := rapid.Bool().Draw(rt, "late")
			nh, _ := h.restart(restartOpts{K: k, Late: late, Config: cfgRestart})
			if k == n {
				// the whole history happened: ownership taken by a PUBREC
				// which went out carries over, marker or not
				nh.inheritedOwned = ownedNow
			}
			if nh.Fatal != nil || len(nh.Warn) != 0 {
				nh.Failf("AdoptSession after a stop: fatal %v, warnings %v", nh.Fatal, nh.Warn)
			}
			h = nh
			restarts++
			h.Act("appStep")
			h.appStep("first connect of the adopted client")
		},
		"": func(rt *rapid.T) { check(false) },
	}
	if !f.c04 {
		delete(actions, "restart")
	}
	if !f.c04 && !f.c07 {
		delete(actions, "markerFault")
	}
	rt.Repeat(actions)

	// One ending in five (C07): the application still holds what ReadSlices
	// returned last when another goroutine ends the client with Disconnect:
	// no acknowledgement for the held message may go out.
	if f.c07 && !h.App.InCall() && h.Current() != nil && h.Current().Accepted() && rapid.IntRange(0, 4).Draw(rt, "disconnectWhileHolding") == 0 {
		h.Act("disconnect while the application holds the last return")
		dc := h.Go("disconnect", &Req{Kind: "disconnect", Quit: "nil"}, func() (<-chan error, error) { return nil, h.Client.Disconnect(nil) })
		h.MustPoll("Disconnect returning", func() bool { return h.IsDone(dc) })
		check(false)
		h.label("disconnect-while-the-application-holds-a-message")
		h.finishCase = true
	}
	// Another ending in five (C07): the last message carries wildcard characters
	// in its topic name, which no conforming broker sends. Handed out or
	// refused with a reset: either way no acknowledgement without the return.
	if f.c07 && !h.finishCase && h.Current() != nil && h.Current().Accepted() && rapid.IntRange(0, 4).Draw(rt, "wildcardTopicNameLast") == 0 {
		qos := byte(rapid.IntRange(1, 2).Draw(rt, "wildcardLevel"))
		h.forceTopic = fmt.Sprintf("in%d/%s", h.nTopic+1, rapid.SampledFrom([]string{"+", "#", "a+b", "+/x/#"}).Draw(rt, "wildcardTopic"))
		if m := h.brokerSendBase(qos, rapid.IntRange(0, 20).Draw(rt, "wildcardLen"), 0); m != nil {
			for i := 0; i < 4; i++ {
				h.App.Step()
				h.MustPoll("read routine at rest", func() bool { return h.ReaderWaiting() || !h.App.InCall() })
				if h.ReaderWaiting() {
					break
				}
			}
			check(false)
			h.label("topic-name-with-wildcard-characters")
			h.finishCase = true
		}
		h.forceTopic = ""
	}
	if h.finishCase {
		h.finish(true)
		return
	}

	// drain: the broker retransmits and completes every cycle
	h.drain(func() bool {
		if !h.allPersistedDone() {
			return false
		}
		done := true
		h.WithLock(func() {
			if len(h.Broker.Sess.Inflight) != 0 {
				done = false
			}
		})
		return done
	})
	// the last acknowledgement goes out with the next invocation
	h.readOn()
	check(true)
	h.WithLock(func() {
		for _, m := range h.Broker.Out {
			if m.Retransmitted || m.RelRetransmitted {
				retransmitted++
			}
		}
	})
	if holds > 0 {
		h.label("application-hold")
	}
	if reconnectBetween > 0 {
		h.label("connection-loss")
	}
	if retransmitted > 0 {
		h.label("broker-retransmission")
	}
	if restarts > 0 {
		h.label("restart")
	}
	if markerFaults > 0 {
		h.label("marker-store-fault")
	}
	if fc.loseTail > 0 {
		h.label("acknowledgement-lost-after-write")
	}
	nontrivial := holds > 0 || reconnectBetween > 0
	if f.c04 && !f.c07 {
		nontrivial = retransmitted > 0 || restarts > 0
	}
	h.finish(nontrivial)
}

// brokerSendBase is brokerSend with an identifier base.
func (h *H) brokerSendBase(qos byte, payloadLen int, base uint16) *refmqtt.OutMsg {
	c := h.Current()
	if c == nil || !c.Accepted() {
		return nil
	}
	h.nTopic++
	topic := fmt.Sprintf("in%d", h.nTopic)
	if h.forceTopic != "" {
		topic = h.forceTopic
	}
	payload := make([]byte, payloadLen)
	for i := range payload {
		payload[i] = byte(h.nTopic) ^ byte(i*13)
	}
	var m *refmqtt.OutMsg
	h.WithLock(func() {
		// (a writer of the client may have lost the connection meanwhile)
		if c = h.CurrentLocked(); c == nil || !c.State.Accepted {
			return
		}
		m = h.Broker.NewMessage(qos, topic, payload, false, base)
		c.SendLocked(h.Broker.PublishBytes(m, c.N))
	})
	if m == nil {
		return nil
	}
	h.Act("brokerSend qos=%d topic=%q len=%d id=%#04x", qos, topic, payloadLen, m.ID)
	h.settleInbound()
	return m
}

// readOn keeps the application reading in the healthy environment until the
// read routine waits for input: whatever was owed has been flushed by then.
func (h *H) readOn() {
	for round := 0; ; round++ {
		if round > 50 {
			h.Failf("the application keeps reading in a healthy environment, yet the read routine never comes to wait for input")
		}
		h.App.Step()
		h.MustPoll("read routine at rest", func() bool { return h.ReaderWaiting() || !h.App.InCall() })
		if h.ExpireStalledRead() {
			continue
		}
		if h.ReaderWaiting() {
			return
		}
	}
}
