package props

// C14, pure half — the error classifiers IsDeny, IsEnd, Client.Backoff (and,
// narrowly, Client.ReadBackoff and IsConnectionRefused) over generated error
// trees.
//
// Reference: IsDeny(e) ⇔ ∃ d ∈ deny sentinels: errors.Is(e, d) where the
// sentinels are the roots of the errors the public API returns for each kind
// of denial; IsEnd(e) ⇔ errors.Is(e, ErrClosed) ∨ errors.Is(e, ErrCanceled) ∨
// errors.Is(e, ErrAbandoned). The generator stays inside what errors.Is and a
// hand-written walk must agree on: comparable targets, no nil member returned
// by a custom Unwrap() []error (invalid by the errors package documentation),
// no %w of a nil operand.
//
// Purity: errors.Is(e, t) for a fixed panel of targets t, errors.As for
// SubscribeError, and e.Error() are recorded before a classifier runs and
// compared afterwards.

import (
	"context"
	"errors"
	"fmt"
	"io"
	"net"
	"os"
	"runtime"
	"strings"
	"sync"
	"testing"
	"time"

	"github.com/pascaldekloe/mqtt"
	"pgregory.net/rapid"
	"verifh/stats"
)

// statsProp lets a temporary driver entry (C14B) collect the statistics that
// go to C14 in the final configuration.
func statsProp(base string) string {
	if p := os.Getenv("VERIF_PROP"); strings.HasPrefix(p, base) {
		return p
	}
	return base
}

type c14Leaf struct {
	name  string
	err   error
	class string // deny, end, other
}

type c14Panel struct {
	leaves    []c14Leaf
	sentinels []error   // roots of the API-produced denials, deduplicated
	library   []c14Leaf // errors the library produced itself, for disjointness
	targets   []c14Leaf // comparable targets of the purity panel
	notes     []string
}

func rootOf(err error) error {
	for {
		u := errors.Unwrap(err)
		if u == nil {
			return err
		}
		err = u
	}
}

type c14Timeout struct{}

func (c14Timeout) Error() string   { return "verif: i/o timeout" }
func (c14Timeout) Timeout() bool   { return true }
func (c14Timeout) Temporary() bool { return true }

var (
	c14Fresh1 = errors.New("verif: fresh error 1")
	c14Fresh2 = errors.New("verif: fresh error 2")
	c14NetErr = &net.OpError{Op: "read", Net: "tcp", Err: c14Timeout{}}
)

func c14Config() *mqtt.Config {
	return &mqtt.Config{
		Dialer: func(ctx context.Context) (net.Conn, error) {
			<-ctx.Done()
			return nil, ctx.Err()
		},
		ReconnectWaitMin: time.Microsecond,
		ReconnectWaitMax: 8 * time.Microsecond,
		AtLeastOnceMax:   2,
		ExactlyOnceMax:   2,
	}
}

// offlineClient returns a client which never connects: nothing ever calls
// ReadSlices, and its Dialer would wait for Close.
func offlineClient(t *testing.T) *mqtt.Client {
	client, err := mqtt.VolatileSession("x", c14Config())
	if err != nil {
		t.Fatalf("VERIF-INFRA: C14b: VolatileSession: %v", err)
	}
	return client
}

var (
	c14PanelOnce sync.Once
	c14ThePanel  *c14Panel
)

// c14GetPanel builds the panel once per process.
func c14GetPanel(t *testing.T) *c14Panel {
	c14PanelOnce.Do(func() { c14ThePanel = newC14Panel(t) })
	if c14ThePanel == nil {
		t.Fatalf("VERIF-INFRA: C14b: the panel could not be built")
	}
	return c14ThePanel
}

// newC14Panel produces each denial once through the public API of a client
// which never connects, and assembles the leaves of the trees.
func newC14Panel(t *testing.T) *c14Panel {
	p := new(c14Panel)
	cfg := c14Config()
	client := offlineClient(t)
	defer client.Close()
	var err error

	type denial struct {
		name string
		err  error
	}
	var denials []denial
	add := func(name string, err error) {
		if err == nil {
			t.Fatalf("VERIF-INFRA: C14b: %s was not denied", name)
		}
		denials = append(denials, denial{name, err})
	}
	long := strings.Repeat("a", 65536)
	add("Publish(topic empty)", client.Publish(nil, nil, ""))
	add("Publish(topic invalid UTF-8)", client.Publish(nil, nil, "a\xffb"))
	add("Publish(topic with NUL)", client.Publish(nil, nil, "a\x00b"))
	add("Publish(topic 65536 bytes)", client.Publish(nil, nil, long))
	add("PublishRetained(topic empty)", client.PublishRetained(nil, nil, ""))
	_, err = client.PublishAtLeastOnce(nil, "")
	add("PublishAtLeastOnce(topic empty)", err)
	_, err = client.PublishExactlyOnce(nil, "a\x00")
	add("PublishExactlyOnce(topic with NUL)", err)
	add("Subscribe()", client.Subscribe(nil))
	add("Subscribe(filter empty)", client.Subscribe(nil, "a", ""))
	add("SubscribeLimitAtMostOnce(filter invalid UTF-8)", client.SubscribeLimitAtMostOnce(nil, "\xc0"))
	add("Unsubscribe()", client.Unsubscribe(nil))
	add("Unsubscribe(filter 65536 bytes)", client.Unsubscribe(nil, long))
	_, err = mqtt.VolatileSession("\xff", cfg)
	add("VolatileSession(client identifier invalid UTF-8)", err)

	// The 256 MiB packet limit. The payload is never read before the size
	// check denies the request; fresh zero pages are not touched, so this
	// costs address space only. Skipped when the allocation is refused.
	func() {
		defer func() {
			if v := recover(); v != nil {
				p.notes = append(p.notes, fmt.Sprintf("packet-max denial not produced: %v", v))
			}
		}()
		big := make([]byte, 1<<28)
		err := client.Publish(nil, big, "t")
		if err == nil {
			t.Fatalf("VERIF-INFRA: C14b: a 256 MiB publish was not denied")
		}
		denials = append(denials, denial{"Publish(256 MiB payload)", err})
	}()
	runtime.GC() // drop the 256 MiB from the heap goal

	for _, d := range denials {
		root := rootOf(d.err)
		known := false
		for _, s := range p.sentinels {
			if s == root {
				known = true
			}
		}
		if !known {
			p.sentinels = append(p.sentinels, root)
			p.leaves = append(p.leaves, c14Leaf{"root(" + d.name + ")", root, "deny"})
		}
		if root != d.err {
			p.leaves = append(p.leaves, c14Leaf{d.name, d.err, "deny"})
		}
		p.library = append(p.library, c14Leaf{d.name, d.err, "deny"})
	}

	// end class, from the library itself where that is possible offline
	canceled := client.Publish(closedQuit(), nil, "t")
	if canceled == nil {
		t.Fatalf("VERIF-INFRA: C14b: Publish with a closed quit on an offline client returned nil")
	}
	closedClient := offlineClient(t)
	closedClient.Close()
	afterClose := closedClient.Publish(nil, nil, "t")
	if afterClose == nil {
		t.Fatalf("VERIF-INFRA: C14b: Publish on a closed client returned nil")
	}
	p.library = append(p.library,
		c14Leaf{"Publish(closed quit)", canceled, "end"},
		c14Leaf{"Publish(after Close)", afterClose, "end"},
		c14Leaf{"ErrClosed", mqtt.ErrClosed, "end"},
		c14Leaf{"ErrCanceled", mqtt.ErrCanceled, "end"},
		c14Leaf{"ErrAbandoned", mqtt.ErrAbandoned, "end"},
	)
	p.leaves = append(p.leaves,
		c14Leaf{"ErrClosed", mqtt.ErrClosed, "end"},
		c14Leaf{"ErrCanceled", mqtt.ErrCanceled, "end"},
		c14Leaf{"ErrAbandoned", mqtt.ErrAbandoned, "end"},
		c14Leaf{"Publish(closed quit)", canceled, "end"},
		c14Leaf{"Publish(after Close)", afterClose, "end"},
	)
	others := []c14Leaf{
		{"ErrDown", mqtt.ErrDown, "other"},
		{"ErrMax", mqtt.ErrMax, "other"},
		{"ErrSubmit", mqtt.ErrSubmit, "other"},
		{"ErrBreak", mqtt.ErrBreak, "other"},
		{"io.EOF", io.EOF, "other"},
		{"io.ErrUnexpectedEOF", io.ErrUnexpectedEOF, "other"},
		{"net.OpError(timeout)", c14NetErr, "other"},
		{"fresh1", c14Fresh1, "other"},
		{"fresh2", c14Fresh2, "other"},
		{"ErrAuth", mqtt.ErrAuth, "other"},
		{"ErrUnavailable", mqtt.ErrUnavailable, "other"},
	}
	p.leaves = append(p.leaves, others...)
	p.targets = append(p.targets, p.leaves...) // all comparable
	// SubscribeError is a slice type: fine as a leaf, never used as a target
	p.leaves = append(p.leaves, c14Leaf{`SubscribeError{"f"}`, mqtt.SubscribeError{"f"}, "other"})
	return p
}

// ---- trees ----

type c14Node struct {
	kind string // leaf wrap wrap2 wrap3 join join1 is isWrap unwrapNil multiEmpty multiNil multi
	leaf int    // index into the panel: the leaf, or what an Is method matches
	kids []*c14Node
	nils []bool // join: nil members interleaved (true = a nil before kid i); len(kids)+1
}

// custom error types; all used by pointer, so that they are comparable

type c14IsErr struct {
	name  string
	match error
	child error // optional
}

func (e *c14IsErr) Error() string {
	if e.child != nil {
		return "is(" + e.name + "){" + e.child.Error() + "}"
	}
	return "is(" + e.name + ")"
}
func (e *c14IsErr) Is(target error) bool { return target == e.match }
func (e *c14IsErr) Unwrap() error        { return e.child }

type c14UnwrapNil struct{}

func (e *c14UnwrapNil) Error() string { return "unwrapNil" }
func (e *c14UnwrapNil) Unwrap() error { return nil }

type c14Multi struct {
	name string
	errs []error // returned as is, like errors.Join does
}

func (e *c14Multi) Error() string {
	parts := make([]string, len(e.errs))
	for i, err := range e.errs {
		parts[i] = err.Error()
	}
	return e.name + "[" + strings.Join(parts, ", ") + "]"
}
func (e *c14Multi) Unwrap() []error { return e.errs }

func (p *c14Panel) genNode(rt *rapid.T, depth int) *c14Node {
	// leaves get likelier with depth; depth 5 is the limit
	if depth >= 5 || rapid.IntRange(0, 19).Draw(rt, "leaf?") < 2+3*depth {
		return &c14Node{kind: "leaf", leaf: p.drawLeaf(rt)}
	}
	kind := rapid.SampledFrom([]string{
		"wrap", "join", "wrap2", "join", "wrap", "wrap3", "join1", "isWrap", "multi", "join",
		"is", "unwrapNil", "multiEmpty", "multiNil",
	}).Draw(rt, "kind")
	n := &c14Node{kind: kind}
	kids := 0
	switch kind {
	case "wrap", "join1", "isWrap":
		kids = 1
	case "wrap2":
		kids = 2
	case "wrap3":
		kids = 3
	case "join":
		kids = rapid.IntRange(1, 4).Draw(rt, "joinKids")
		n.nils = make([]bool, kids+1)
		for i := range n.nils {
			n.nils[i] = rapid.IntRange(0, 4).Draw(rt, "nilMember") == 4
		}
	case "multi":
		kids = rapid.IntRange(1, 3).Draw(rt, "multiKids")
	}
	if kind == "is" || kind == "isWrap" {
		n.leaf = rapid.IntRange(0, len(p.targets)-1).Draw(rt, "isMatches")
	}
	for i := 0; i < kids; i++ {
		n.kids = append(n.kids, p.genNode(rt, depth+1))
	}
	return n
}

func (p *c14Panel) drawLeaf(rt *rapid.T) int {
	// class first, so that the three classes stay balanced whatever the panel size
	class := rapid.SampledFrom([]string{"other", "deny", "end", "other"}).Draw(rt, "leafClass")
	var idx []int
	for i, l := range p.leaves {
		if l.class == class {
			idx = append(idx, i)
		}
	}
	return idx[rapid.IntRange(0, len(idx)-1).Draw(rt, "leaf")]
}

// build makes a fresh error value of the tree; inner nodes are never shared
// between builds.
func (p *c14Panel) build(n *c14Node) error {
	kid := func(i int) error { return p.build(n.kids[i]) }
	switch n.kind {
	case "leaf":
		return p.leaves[n.leaf].err
	case "wrap":
		return fmt.Errorf("w: %w", kid(0))
	case "wrap2":
		return fmt.Errorf("w2: %w, %w", kid(0), kid(1))
	case "wrap3":
		return fmt.Errorf("w3: %w, %w, %w", kid(0), kid(1), kid(2))
	case "join1":
		return errors.Join(kid(0))
	case "join":
		var l []error
		for i := range n.kids {
			if n.nils[i] {
				l = append(l, nil)
			}
			l = append(l, kid(i))
		}
		if n.nils[len(n.kids)] {
			l = append(l, nil)
		}
		return errors.Join(l...)
	case "is":
		return &c14IsErr{name: p.targets[n.leaf].name, match: p.targets[n.leaf].err}
	case "isWrap":
		return &c14IsErr{name: p.targets[n.leaf].name, match: p.targets[n.leaf].err, child: kid(0)}
	case "unwrapNil":
		return new(c14UnwrapNil)
	case "multiEmpty":
		return &c14Multi{name: "multiEmpty", errs: []error{}}
	case "multiNil":
		return &c14Multi{name: "multiNil", errs: nil}
	case "multi":
		// spare capacity behind the members, as a type which appends would have
		l := make([]error, 0, len(n.kids)+2)
		for i := range n.kids {
			l = append(l, kid(i))
		}
		return &c14Multi{name: "multi", errs: l}
	}
	panic("VERIF-INFRA: C14b: unknown node kind " + n.kind)
}

func (p *c14Panel) render(n *c14Node, b *strings.Builder) {
	switch n.kind {
	case "leaf":
		b.WriteString(p.leaves[n.leaf].name)
		return
	case "is":
		b.WriteString("isType(" + p.targets[n.leaf].name + ")")
		return
	case "isWrap":
		b.WriteString("isType(" + p.targets[n.leaf].name + "){")
		p.render(n.kids[0], b)
		b.WriteString("}")
		return
	case "unwrapNil", "multiEmpty", "multiNil":
		b.WriteString(n.kind + "()")
		return
	case "wrap":
		b.WriteString("%w(")
	case "wrap2":
		b.WriteString("%w%w(")
	case "wrap3":
		b.WriteString("%w%w%w(")
	case "join", "join1":
		b.WriteString("Join(")
	case "multi":
		b.WriteString("multi(")
	}
	for i, k := range n.kids {
		if i != 0 {
			b.WriteString(", ")
		}
		if n.nils != nil && n.nils[i] {
			b.WriteString("nil, ")
		}
		p.render(k, b)
	}
	if n.nils != nil && n.nils[len(n.kids)] {
		b.WriteString(", nil")
	}
	b.WriteString(")")
}

func (n *c14Node) multiNodes() int {
	c := 0
	switch n.kind {
	case "wrap2", "wrap3", "join", "join1", "multi":
		c = 1
	}
	for _, k := range n.kids {
		c += k.multiNodes()
	}
	return c
}

func (n *c14Node) depth() int {
	d := 0
	for _, k := range n.kids {
		if kd := k.depth(); kd > d {
			d = kd
		}
	}
	return d + 1
}

// c14Snapshot is everything observable about an error value which a
// classifier has no business changing.
type c14Snapshot struct {
	is    []bool
	asSub bool
	text  string
}

func (p *c14Panel) snapshot(e error) c14Snapshot {
	s := c14Snapshot{is: make([]bool, len(p.targets))}
	for i, t := range p.targets {
		s.is[i] = errors.Is(e, t.err)
	}
	s.asSub = errors.As(e, new(mqtt.SubscribeError))
	s.text = e.Error()
	return s
}

func (p *c14Panel) diff(a, b c14Snapshot) string {
	var l []string
	for i := range a.is {
		if a.is[i] != b.is[i] {
			l = append(l, fmt.Sprintf("errors.Is(e, %s) was %t, is %t", p.targets[i].name, a.is[i], b.is[i]))
		}
	}
	if a.asSub != b.asSub {
		l = append(l, fmt.Sprintf("errors.As(e, *SubscribeError) was %t, is %t", a.asSub, b.asSub))
	}
	if a.text != b.text {
		l = append(l, fmt.Sprintf("e.Error() was %q, is %q", a.text, b.text))
	}
	return strings.Join(l, "; ")
}

// guarded calls f and reports a panic as text.
func guarded(f func()) (panicText string) {
	defer func() {
		if v := recover(); v != nil {
			panicText = fmt.Sprint(v)
		}
	}()
	f()
	return ""
}

func TestC14bClassifierTrees(t *testing.T) {
	p := c14GetPanel(t)
	client := offlineClient(t)
	defer client.Close()
	st := stats.For(statsProp("C14"))
	for i, n := range p.notes {
		st.Note(fmt.Sprintf("c14b-panel-%d", i), n)
	}
	var names []string
	for _, s := range p.sentinels {
		names = append(names, fmt.Sprintf("%q", s.Error()))
	}
	st.Note("c14b-deny-sentinels", fmt.Sprintf("%d distinct roots of API-produced denials: %s", len(p.sentinels), strings.Join(names, ", ")))

	rapid.Check(t, func(rt *rapid.T) {
		root := p.genNode(rt, 0)
		var b strings.Builder
		p.render(root, &b)
		desc := b.String()
		multi := root.multiNodes()
		labels := []string{fmt.Sprintf("tree-depth-%d", root.depth())}
		if multi > 0 {
			labels = append(labels, "tree-with-multi-unwrap")
		}

		e := p.build(root)
		if e == nil {
			rt.Fatalf("VERIF-INFRA: C14b: tree %s built a nil error", desc)
		}
		before := p.snapshot(e)
		wantDeny := false
		for _, s := range p.sentinels {
			if errors.Is(e, s) {
				wantDeny = true
			}
		}
		wantEnd := errors.Is(e, mqtt.ErrClosed) || errors.Is(e, mqtt.ErrCanceled) || errors.Is(e, mqtt.ErrAbandoned)
		isMax := errors.Is(e, mqtt.ErrMax)
		switch {
		case wantDeny && wantEnd:
			labels = append(labels, "class:deny+end(artificial)")
		case wantDeny:
			labels = append(labels, "class:deny")
		case wantEnd:
			labels = append(labels, "class:end")
		case before.asSub:
			labels = append(labels, "class:subscribe-error")
		case isMax:
			labels = append(labels, "class:max")
		default:
			labels = append(labels, "class:transient")
		}
		st.Case(desc, multi > 0, labels...)

		pure := func(what string) {
			if d := p.diff(before, p.snapshot(e)); d != "" {
				violate(rt, "C14", "%s modified its argument e = %s: %s", what, desc, d)
			}
		}

		var gotDeny, gotEnd bool
		if pt := guarded(func() { gotDeny = mqtt.IsDeny(e) }); pt != "" {
			violate(rt, "C14", "IsDeny panicked on e = %s: %s", desc, pt)
		}
		pure("IsDeny(e)")
		if gotDeny != wantDeny {
			violate(rt, "C14", "IsDeny(e) = %t for e = %s, yet errors.Is(e, d) for some denial d of the API is %t", gotDeny, desc, wantDeny)
		}

		if pt := guarded(func() { gotEnd = mqtt.IsEnd(e) }); pt != "" {
			violate(rt, "C14", "IsEnd panicked on e = %s: %s", desc, pt)
		}
		pure("IsEnd(e)")
		if gotEnd != wantEnd {
			violate(rt, "C14", "IsEnd(e) = %t for e = %s, yet errors.Is(e, ErrClosed|ErrCanceled|ErrAbandoned) is %t", gotEnd, desc, wantEnd)
		}

		var backoff <-chan struct{}
		if pt := guarded(func() { backoff = client.Backoff(e) }); pt != "" {
			violate(rt, "C14", "Backoff panicked on e = %s: %s", desc, pt)
		}
		pure("Backoff(e)")
		permanent := wantDeny || wantEnd || before.asSub
		switch {
		case !wantDeny && !wantEnd && before.asSub && isMax:
			// an artificial join of ErrMax with a SubscribeError: the
			// documentation does not rank the two
			st.Label("backoff:max+subscribe-error-not-asserted", 1)
		case permanent && backoff != nil:
			violate(rt, "C14", "Backoff(e) is not nil for e = %s, which is permanent (deny %t, end %t, SubscribeError %t)", desc, wantDeny, wantEnd, before.asSub)
		case !permanent && backoff == nil:
			violate(rt, "C14", "Backoff(e) is nil for e = %s, which is neither a denial nor an end nor a SubscribeError", desc)
		}

		// IsConnectionRefused: the property states nothing about its verdict;
		// it is a classifier all the same and must leave its argument alone
		if pt := guarded(func() { mqtt.IsConnectionRefused(e) }); pt != "" {
			violate(rt, "C14", "IsConnectionRefused panicked on e = %s: %s", desc, pt)
		}
		pure("IsConnectionRefused(e)")

		// ReadBackoff, only where both readings of "permanent" agree
		var readBackoff <-chan struct{}
		if pt := guarded(func() { readBackoff = client.ReadBackoff(e) }); pt != "" {
			violate(rt, "C14", "ReadBackoff panicked on e = %s: %s", desc, pt)
		}
		pure("ReadBackoff(e)")
		switch {
		case errors.Is(e, mqtt.ErrClosed):
			if readBackoff != nil {
				violate(rt, "C14", "ReadBackoff(e) is not nil for e = %s, which is an ErrClosed", desc)
			}
		case !wantDeny && !wantEnd:
			if readBackoff == nil {
				violate(rt, "C14", "ReadBackoff(e) is nil for e = %s, which is not permanent", desc)
			}
		}
	})
}

// TestC14bLibraryErrors: what the library itself produced, plain or wrapped
// with %w by the application, is in exactly one class; nil is in none.
func TestC14bLibraryErrors(t *testing.T) {
	p := c14GetPanel(t)
	client := offlineClient(t)
	defer client.Close()
	st := stats.For(statsProp("C14"))

	if mqtt.IsDeny(nil) || mqtt.IsEnd(nil) {
		violate(t, "C14", "IsDeny(nil) = %t, IsEnd(nil) = %t", mqtt.IsDeny(nil), mqtt.IsEnd(nil))
	}
	if client.Backoff(nil) != nil {
		violate(t, "C14", "Backoff(nil) is not nil")
	}

	rapid.Check(t, func(rt *rapid.T) {
		l := p.library[rapid.IntRange(0, len(p.library)-1).Draw(rt, "libraryError")]
		wraps := rapid.IntRange(0, 4).Draw(rt, "wraps")
		e := l.err
		for i := 0; i < wraps; i++ {
			e = fmt.Errorf("app context %d: %w", i, e)
		}
		desc := strings.Repeat("%w(", wraps) + l.name + strings.Repeat(")", wraps)
		st.Case("library error "+desc, false, "library-error:"+l.class)

		before := p.snapshot(e)
		deny, end := mqtt.IsDeny(e), mqtt.IsEnd(e)
		backoff := client.Backoff(e)
		if d := p.diff(before, p.snapshot(e)); d != "" {
			violate(rt, "C14", "the classifiers modified their argument e = %s: %s", desc, d)
		}
		if deny && end {
			violate(rt, "C14", "IsDeny and IsEnd both hold for e = %s (%q)", desc, e)
		}
		if deny != (l.class == "deny") || end != (l.class == "end") {
			violate(rt, "C14", "e = %s (%q) is a %s of the library, yet IsDeny = %t and IsEnd = %t", desc, e, l.class, deny, end)
		}
		if backoff != nil {
			violate(rt, "C14", "Backoff(e) is not nil for e = %s (%q), which is permanent", desc, e)
		}
	})
}
