package props

import (
	"errors"
	"fmt"
	"strings"
	"testing"
	"time"

	"github.com/pascaldekloe/mqtt"
	"pgregory.net/rapid"
	"verifh/refmqtt"
	"verifh/sim"
	"verifh/stats"
)

// rq is a Subscribe/Unsubscribe/Ping issued by the C11 machine.
type rq struct {
	call     *sim.Call
	kind     string // sub unsub ping
	filters  []string
	quit     chan struct{}
	quitKind string // nil closed later
	fired    bool
	firedSeq int
	checked  bool
}

// c11 holds the machine's view.
type c11 struct {
	*H
	reqs       []*rq
	closed     bool
	closedSeq  int
	excludedF7 int
}

// lossWithin tells whether a connection was lost (closed by the client or
// broken by the harness) within the interval of events.
func (m *c11) lossWithin(a, b int) bool {
	// an offline transition which began before a and was still under way
	// (it ends before ReadSlices returns or dials again) counts as well: it
	// fails the requests registered by then
	underWay := false
	for _, e := range m.Events() {
		if e.Seq >= a {
			break
		}
		switch {
		case e.Kind == sim.EvYield && e.Str == "offline.enter":
			underWay = true
		case e.Kind == sim.EvAppRet || e.Kind == sim.EvDial:
			underWay = false
		}
	}
	if underWay {
		return true
	}
	for _, e := range m.Events() {
		if e.Seq < a || e.Seq > b {
			continue
		}
		// (the offline transition of the read routine fails the pending
		// requests, possibly well after the connection itself ended)
		if e.Kind == sim.EvConnClose || e.Kind == sim.EvConnBreak || e.Kind == sim.EvYield && e.Str == "offline.enter" {
			return true
		}
		// a Write which fails within the interval is how a loss that happened
		// earlier (the remote end closed unnoticed) becomes known
		if e.Kind == sim.EvWriteRet && e.Err != nil {
			return true
		}
	}
	return false
}

// packetOf finds the request's own packet on the wires: complete or partial.
func (m *c11) packetOf(r *rq) (id uint16, conn int, complete bool, anyByte bool, completeSeq int) {
	if r.kind == "ping" {
		return
	}
	for _, wp := range wirePacketsFrom(m.Events()) {
		p := wp.P
		if (p.Type == refmqtt.SUBSCRIBE && r.kind == "sub" || p.Type == refmqtt.UNSUBSCRIBE && r.kind == "unsub") && p.Filters[0] == r.filters[0] {
			return p.ID, wp.Conn, true, true, wp.Seq
		}
	}
	// a partial packet at the end of a wire which names the first filter
	for _, c := range m.AllConns() {
		_, rest, _ := refmqtt.DecodeAll(c.OutCopy())
		if len(rest) != 0 && strings.Contains(string(rest), r.filters[0][:len(r.filters[0])-1]) {
			return 0, c.N, false, true, 0
		}
	}
	return
}

// verify checks a returned request against the history.
func (m *c11) verify(r *rq) {
	c := r.call
	var err error
	var start, end int
	m.WithLock(func() { err, start, end = c.Err, c.StartSeq, c.EndSeq })
	id, conn, complete, anyByte, completeSeq := m.packetOf(r)
	events := m.Events()
	answered := func() (codes []byte, ok bool) {
		for _, e := range events {
			if e.Kind != sim.EvBrokerSend || e.Conn != conn || e.Seq < completeSeq || e.Seq > end {
				continue
			}
			ps, _, _ := refmqtt.DecodeAll(e.Data)
			for _, p := range ps {
				if p.ID == id && (p.Type == refmqtt.SUBACK && r.kind == "sub" || p.Type == refmqtt.UNSUBACK && r.kind == "unsub") {
					return p.Codes, true
				}
			}
		}
		return nil, false
	}
	var subErr mqtt.SubscribeError
	switch {
	case err == nil || errors.As(err, &subErr):
		if r.kind == "ping" {
			// some PINGRESP was released while this Ping was waiting (L8)
			// (… or reached the client while it was waiting, whenever released)
			found := false
			for _, e := range events {
				if e.Kind == sim.EvBrokerSend && e.Seq > start && e.Seq < end && strings.Contains(string(e.Data), "\xd0\x00") {
					found = true
				}
				if e.Kind == sim.EvRead && e.Seq > start && e.Seq < end && strings.Contains(string(e.Data), "\xd0\x00") {
					found = true
				}
			}
			if !found {
				// handed to the read routine shortly before the call began
				// and still being processed when it installed its slot
				pending := false
				for _, e := range events {
					if e.Seq >= start {
						break
					}
					switch {
					case e.Kind == sim.EvRead && strings.Contains(string(e.Data), "\xd0\x00"):
						pending = true
					case e.Kind == sim.EvReadPark || e.Kind == sim.EvAppRet:
						pending = false
					}
				}
				found = pending
			}
			if !found {
				m.Failf("call %d Ping returned nil, yet the broker released no PINGRESP while it was waiting", c.N)
			}
			return
		}
		if !complete {
			m.Failf("call %d %s returned %v, yet its packet is on no connection", c.N, r.kind, err)
		}
		codes, ok := answered()
		if !ok {
			m.Failf("call %d %s (identifier %#04x on conn %d) returned %v, yet the broker released no response for that identifier on that connection before the return: the response of another request was handed to it", c.N, r.kind, id, conn, err)
		}
		if r.kind == "sub" {
			var want []string
			for i, code := range codes {
				if code == 0x80 && i < len(r.filters) {
					want = append(want, r.filters[i])
				}
			}
			if strings.Join(want, "\x00") != strings.Join([]string(subErr), "\x00") {
				m.Failf("call %d Subscribe of %q was answered with return codes %x, yet it returned %v (failed filters %q, want %q)", c.N, r.filters, codes, err, []string(subErr), want)
			}
		}
	case errors.Is(err, mqtt.ErrCanceled):
		if r.quitKind == "nil" || !r.fired {
			m.Failf("call %d %s returned %v without any quit signal", c.N, r.kind, err)
		}
		if anyByte {
			m.Failf("call %d %s returned ErrCanceled, yet bytes of its packet are on conn %d", c.N, r.kind, conn)
		}
	case errors.Is(err, mqtt.ErrAbandoned):
		if r.quitKind == "nil" || !r.fired {
			m.Failf("call %d %s returned %v without any quit signal", c.N, r.kind, err)
		}
		if r.kind != "ping" && !complete {
			m.Failf("call %d %s returned ErrAbandoned, yet its packet was not written completely", c.N, r.kind)
		}
	case errors.Is(err, mqtt.ErrClosed):
		if !m.closed || end < m.closedSeq {
			m.Failf("call %d %s returned %v although the client was not closed", c.N, r.kind, err)
		}
	case errors.Is(err, mqtt.ErrBreak), errors.Is(err, mqtt.ErrSubmit):
		if !m.lossWithin(start, end) && !(m.closed && end >= m.closedSeq) {
			m.Failf("call %d %s returned %v, yet no connection was lost during its lifetime (events %d…%d)", c.N, r.kind, err, start, end)
		}
	case errors.Is(err, mqtt.ErrMax):
		if r.kind != "ping" {
			m.Failf("call %d %s returned ErrMax with only a few requests in flight", c.N, r.kind)
		}
		other := false
		for _, o := range m.reqs {
			if o != r && o.kind == "ping" {
				var oStart, oEnd int
				var oDone bool
				m.WithLock(func() { oStart, oEnd, oDone = o.call.StartSeq, o.call.EndSeq, o.call.Done })
				// (lifetimes overlap; the later call may well be the first to get to the slot)
				if oStart < end && (!oDone || oEnd > start) {
					other = true
				}
			}
		}
		if !other {
			m.Failf("call %d Ping returned ErrMax, yet no other Ping was in flight", c.N)
		}
	case errors.Is(err, mqtt.ErrDown):
		// the connection was down: a failed connect attempt precedes
	default:
		m.Failf("call %d %s returned %v, which is none of the documented outcomes", c.N, r.kind, err)
	}
}

func (m *c11) harvest() {
	for _, r := range m.reqs {
		if !r.checked && m.IsDone(r.call) {
			r.checked = true
			m.verify(r)
		}
	}
}

// pingAllowed implements the exclusion for the open finding F7: a Ping is
// issued only when no earlier Ping is still running after its slot may have
// been taken (response released, connection lost, quit fired).
func (m *c11) pingAllowed() bool {
	for _, o := range m.reqs {
		if o.kind != "ping" || m.IsDone(o.call) {
			continue
		}
		// Any overlap is excluded: the earlier Ping's callback may have been
		// consumed by a stray PINGRESP while it still waits for the write
		// lock, and its epilogue then removes the later Ping's callback.
		if true {
			return false
		}
		var start int
		m.WithLock(func() { start = o.call.StartSeq })
		if o.fired || m.lossWithin(start, 1<<30) {
			return false
		}
		for _, e := range m.Events() {
			if e.Kind == sim.EvBrokerSend && e.Seq > start && len(e.Data) >= 2 && e.Data[0] == 0xd0 {
				return false
			}
		}
	}
	return true
}

func (m *c11) issue(rt *rapid.T, kind string) {
	r := &rq{kind: kind, quitKind: rapid.SampledFrom([]string{"nil", "nil", "later", "later", "closed"}).Draw(rt, "quit")}
	if r.quitKind != "nil" {
		r.quit = make(chan struct{})
	}
	if r.quitKind == "closed" {
		close(r.quit)
		r.fired = true
	}
	var quit <-chan struct{} = r.quit
	if r.quit == nil {
		quit = nil
	}
	m.nTopic++
	n := rapid.IntRange(1, 4).Draw(rt, "nfilters")
	for i := 0; i < n; i++ {
		r.filters = append(r.filters, fmt.Sprintf("q%d/%d/#", m.nTopic, i))
	}
	if rapid.IntRange(0, 7).Draw(rt, "aroundLengthStep") == 0 {
		// one filter, sized such that the packet's remaining length is
		// 126…130 (the step from one length byte to two)
		f := fmt.Sprintf("q%d/", m.nTopic)
		f += strings.Repeat("w", rapid.IntRange(121, 126).Draw(rt, "filterLen")-len(f)-1) + "#"
		r.filters = []string{f}
	}
	req := &Req{Kind: kind, Filters: r.filters, Level: 2, Quit: r.quitKind}
	m.Act("%s filters=%q quit=%s", kind, r.filters, r.quitKind)
	switch kind {
	case "sub":
		r.call = m.Go("sub", req, func() (<-chan error, error) { return nil, m.Client.Subscribe(quit, r.filters...) })
	case "unsub":
		r.call = m.Go("unsub", req, func() (<-chan error, error) { return nil, m.Client.Unsubscribe(quit, r.filters...) })
	case "ping":
		r.filters = nil
		req.Filters = nil
		r.call = m.Go("ping", req, func() (<-chan error, error) { return nil, m.Client.Ping(quit) })
	}
	m.reqs = append(m.reqs, r)
	m.SettleCall(r.call)
}

// C11 — every request completes and gets its own response.
func TestC11Requests(t *testing.T) {
	rapid.Check(t, func(rt *rapid.T) {
		m := &c11{H: newH(rt, "C11", asVolatileSession(rt, sim.Options{Config: baseConfig()}))}
		h := m.H
		concurrent := false
		defer func() { h.finish(concurrent) }()
		h.Act("appStep")
		h.appStep("first connect")

		inFlight := func() int {
			n := 0
			for _, r := range m.reqs {
				if !m.IsDone(r.call) {
					n++
				}
			}
			return n
		}
		keepReading := func() {
			if !h.App.InCall() && !m.closed {
				h.App.Step()
			}
			h.SettleReader("inbound")
		}

		actions := map[string]func(*rapid.T){
			"sub":   func(rt *rapid.T) { m.issue(rt, "sub") },
			"unsub": func(rt *rapid.T) { m.issue(rt, "unsub") },
			"ping": func(rt *rapid.T) {
				// (overlapping Pings were excluded while finding F7 was open)
				if !m.pingAllowed() {
					h.label("ping-issued-while-an-earlier-ping-still-runs")
				}
				m.issue(rt, "ping")
			},
			"answer": func(rt *rapid.T) {
				c := h.Current()
				if c == nil {
					rt.Skip("no connection")
				}
				owed := c.Owed()
				if len(owed) == 0 {
					rt.Skip("nothing owed")
				}
				if inFlight() >= 2 {
					concurrent = true
				}
				i := rapid.IntRange(0, len(owed)-1).Draw(rt, "which")
				o := owed[i]
				if o.Kind == refmqtt.SUBACK {
					codes := append([]byte(nil), o.Codes...)
					for j := range codes {
						if rapid.IntRange(0, 3).Draw(rt, "fail") == 0 {
							codes[j] = 0x80
						} else {
							codes[j] = byte(rapid.IntRange(0, 2).Draw(rt, "granted"))
						}
					}
					c.SetOwedCodes(i, codes)
					o.Codes = codes
				}
				h.Act("answer %s codes=%x (position %d of %d owed)", o, o.Codes, i, len(owed))
				c.Release(i)
				keepReading()
				if rapid.IntRange(0, 4).Draw(rt, "twice") == 0 {
					h.Act("… and once more (duplicate response)")
					c.Send(o.Bytes())
					keepReading()
				}
			},
			// an answer with an illegal return code: the client resets the
			// connection, which must release every request waiting on it
			"illegalAnswer": func(rt *rapid.T) {
				c := h.Current()
				if c == nil {
					rt.Skip("no connection")
				}
				var idx = -1
				owed := c.Owed()
				for i, o := range owed {
					if o.Kind == refmqtt.SUBACK {
						idx = i
					}
				}
				if idx < 0 {
					rt.Skip("no SUBACK owed")
				}
				o := owed[idx]
				codes := append([]byte(nil), o.Codes...)
				codes[rapid.IntRange(0, len(codes)-1).Draw(rt, "which")] = byte(rapid.SampledFrom([]int{3, 0x7f, 0x81, 0xff}).Draw(rt, "code"))
				h.Act("answer %s with illegal return codes %x", o, codes)
				var waiting []*rq
				for _, r := range m.reqs {
					if !m.IsDone(r.call) {
						// (a Ping may still be waiting for the write lock: it has no
						// identifiable packet, so it is left to the final check)
						if _, conn, complete, _, _ := m.packetOf(r); complete && conn == c.N {
							waiting = append(waiting, r)
						}
					}
				}
				c.SetOwedCodes(idx, codes)
				c.Release(idx)
				keepReading()
				for _, r := range waiting {
					h.MustPoll(fmt.Sprintf("call %d %s returning after the connection was reset for an illegal SUBACK", r.call.N, r.kind), func() bool {
						return h.IsDone(r.call) || len(h.ParkedGates()) > 0 || h.WritersParkedAny()
					})
				}
			},
			// a malformed PINGRESP while a Ping waits: the connection is reset,
			// the Ping gets ErrBreak (nothing answered it)
			"malformedPingresp": func(rt *rapid.T) {
				c := h.Current()
				if c == nil || !c.Accepted() {
					rt.Skip("no connection")
				}
				var waiting *rq
				for _, o := range m.reqs {
					if o.kind == "ping" && !m.IsDone(o.call) {
						waiting = o
					}
				}
				if waiting == nil {
					rt.Skip("no Ping waits")
				}
				b := rapid.SampledFrom([][]byte{{0xd0, 1, 0}, {0xd0, 2, 0, 0}}).Draw(rt, "bytes")
				h.Act("malformed PINGRESP % x while call %d waits", b, waiting.call.N)
				c.Send(b)
				keepReading()
				// (the Ping may not have been written yet: whether and how it
				// returns is judged like any other call, by verify)
			},
			"unsolicited": func(rt *rapid.T) {
				c := h.Current()
				if c == nil || !c.Accepted() {
					rt.Skip("no connection")
				}
				var b []byte
				switch rapid.IntRange(0, 2).Draw(rt, "kind") {
				case 0:
					b = refmqtt.Encode(&refmqtt.Packet{Type: refmqtt.SUBACK, ID: 0x7f00 | uint16(rapid.IntRange(0, 255).Draw(rt, "id")), Codes: []byte{1}})
				case 1:
					b = refmqtt.Ack(refmqtt.UNSUBACK, 0x5f00|uint16(rapid.IntRange(0, 255).Draw(rt, "id")))
				case 2:
					if !m.pingAllowed() || func() bool {
						for _, o := range m.reqs {
							if o.kind == "ping" && !m.IsDone(o.call) {
								return true
							}
						}
						return false
					}() {
						rt.Skip("a Ping is waiting: an unsolicited PINGRESP would answer it")
					}
					b = []byte{0xd0, 0}
				}
				h.Act("unsolicited % x", b)
				c.Send(b)
				keepReading()
			},
			// a connect attempt is under way (Dialer or CONNACK outstanding),
			// requests arrive meanwhile, then the attempt fails: they must
			// return (ErrDown) without any further ReadSlices
			"connectFails": func(rt *rapid.T) {
				c := h.Current()
				if c == nil || len(h.ParkedGates()) > 0 || h.WritersParkedAny() {
					rt.Skip("no connection, or something is parked")
				}
				inDial := rapid.Bool().Draw(rt, "inDial")
				h.Act("connectFails: break conn=%d, next attempt waits in %s", c.N, map[bool]string{true: "the Dialer", false: "the handshake"}[inDial])
				if inDial {
					h.ScriptDial(sim.DialOutcome{Kind: sim.DialParkErr})
				} else {
					h.ScriptDial(sim.DialOutcome{Connack: &sim.ConnackPolicy{Kind: sim.ConnackHold}})
				}
				c.Break(rapid.Bool().Draw(rt, "graceful"))
				waiting := func() bool {
					if inDial {
						return h.DialParked() > 0
					}
					cur := h.Current()
					return cur != nil && cur != c && h.ReaderWaiting()
				}
				for i := 0; i < 4 && !waiting(); i++ {
					if !h.App.InCall() {
						h.App.Step()
					}
					h.MustPoll("ReadSlices returning or the connect attempt waiting", func() bool { return !h.App.InCall() || waiting() })
				}
				if !waiting() {
					h.ClearDialScript()
					rt.Skip("the attempt did not come to wait")
				}
				before := len(m.reqs)
				for i, n := 0, rapid.IntRange(1, 3).Draw(rt, "requests"); i < n; i++ {
					kind := rapid.SampledFrom([]string{"sub", "unsub", "ping"}).Draw(rt, "kind")
					if kind == "ping" && !m.pingAllowed() {
						kind = "sub"
					}
					m.issue(rt, kind)
				}
				h.Act("… the attempt fails")
				if inDial {
					h.ReleaseDial()
				} else {
					if cur := h.Current(); cur != nil {
						cur.Break(false)
					}
				}
				h.MustPoll("ReadSlices returning the failed connect attempt", func() bool { return !h.App.InCall() })
				for _, r := range m.reqs[before:] {
					h.MustPoll(fmt.Sprintf("call %d %s, issued while a connect attempt was under way, returning after that attempt failed", r.call.N, r.kind), func() bool {
						return h.IsDone(r.call) || len(h.ParkedGates()) > 0 // (a gate armed earlier may hold its epilogue)
					})
				}
				h.label("requests-during-a-failing-connect")
			},
			"fireQuit": func(rt *rapid.T) {
				var cands []*rq
				for _, r := range m.reqs {
					if r.quitKind == "later" && !r.fired && !m.IsDone(r.call) {
						cands = append(cands, r)
					}
				}
				if len(cands) == 0 {
					rt.Skip("no open quit")
				}
				if inFlight() >= 2 {
					concurrent = true
				}
				r := cands[rapid.IntRange(0, len(cands)-1).Draw(rt, "which")]
				h.Act("fire quit of call %d %s", r.call.N, r.kind)
				r.fired = true
				r.firedSeq = h.Seq()
				close(r.quit)
				h.MustPoll(fmt.Sprintf("call %d %s returning after its quit fired", r.call.N, r.kind), func() bool {
					return h.IsDone(r.call) || len(h.ParkedGates()) > 0 || h.WritersParkedAny()
				})
			},
			"break": func(rt *rapid.T) {
				c := h.Current()
				if c == nil {
					rt.Skip("no connection")
				}
				if inFlight() >= 2 {
					concurrent = true
				}
				h.Act("break conn=%d", c.N)
				c.Break(rapid.Bool().Draw(rt, "graceful"))
				keepReading()
			},
			"armWrite": func(rt *rapid.T) {
				if h.Current() == nil {
					rt.Skip("no connection")
				}
				h.armWrite(rapid.IntRange(0, 30).Draw(rt, "off"), rapid.SampledFrom([]int{sim.WReset, sim.WTimeout, sim.WPark, sim.WTimeoutProgress}).Draw(rt, "kind"))
			},
			"releaseWrite": func(rt *rapid.T) {
				done := false
				for _, c := range h.AllConns() {
					if c.WritersParked() > 0 {
						h.Act("releaseWrite conn=%d", c.N)
						c.ReleaseWrite()
						done = true
					}
				}
				if !done {
					rt.Skip("nothing parked")
				}
				h.PollQuiet(quiet, func() bool { return false })
			},
			"gate": func(rt *rapid.T) {
				g := rapid.SampledFrom([]string{"sub.fail", "unsub.fail", "sub.quit", "unsub.quit"}).Draw(rt, "gate")
				h.Act("gate %s", g)
				h.ArmGate(g)
			},
			"releaseGate": func(rt *rapid.T) {
				gs := h.ParkedGates()
				if len(gs) == 0 {
					rt.Skip("nothing parked")
				}
				g := gs[rapid.IntRange(0, len(gs)-1).Draw(rt, "which")]
				h.Act("releaseGate %s", g)
				h.ReleaseGate(g)
				h.PollQuiet(quiet, func() bool { return false })
			},
			"appStep": func(rt *rapid.T) {
				h.Act("appStep")
				keepReading()
			},
			"": func(rt *rapid.T) {
				noPanics(h)
				h.checkWire()
				m.harvest()
			},
		}
		rt.Repeat(actions)

		// the end: optionally Close, then a healthy environment; every call returns
		if rapid.Bool().Draw(rt, "closeAtEnd") {
			h.Act("close")
			m.closed = true
			m.closedSeq = h.Seq()
			cl := h.Go("close", &Req{Kind: "close"}, func() (<-chan error, error) { return nil, h.Client.Close() })
			for _, g := range h.ParkedGates() {
				h.ReleaseGate(g)
			}
			for _, c := range h.AllConns() {
				for c.ReleaseWrite() {
				}
			}
			h.MustPoll("Close returning", func() bool { return h.IsDone(cl) })
			for i := 0; i < 3; i++ {
				h.App.Step()
				h.MustPoll("ReadSlices returning after Close", func() bool { return !h.App.InCall() })
			}
		} else {
			h.drain(func() bool { return true })
			h.readOn()
		}
		for _, g := range []string{"sub.fail", "unsub.fail", "sub.quit", "unsub.quit"} {
			h.DisarmGate(g)
		}
		for _, g := range h.ParkedGates() {
			h.ReleaseGate(g)
		}
		for _, r := range m.reqs {
			h.MustPoll(fmt.Sprintf("call %d %s (quit %s) returning: its response was released, its connection was lost or the client was closed", r.call.N, r.kind, r.quitKind), func() bool { return h.IsDone(r.call) })
		}
		noPanics(h)
		h.checkWire()
		m.harvest()
		if m.excludedF7 > 0 {
			h.label("ping-skipped-for-F7")
		}
		if concurrent {
			h.label(">=2-requests-in-flight-at-response/loss/quit")
		}
	})
}

// TestC11PingSlotOwnership replays the history of finding F7 (repaired): the
// epilogue of a Ping whose write failed removed whatever callback sat in the
// single slot, also the one of a later Ping, which then never learned of its
// PINGRESP, of a connection loss or of Close.
func TestC11PingSlotOwnership(t *testing.T) {
	rapid.Check(t, func(rt *rapid.T) {
		h := newH(rt, "C11", sim.Options{Config: baseConfig()})
		defer h.Shutdown(2 * time.Second)
		h.appStep("first connect")
		c1 := h.Current()
		if c1 == nil {
			return
		}
		h.ArmGate("ping.fail")
		c1.ArmWrite(sim.WFault{Off: c1.OutLen() + rapid.IntRange(0, 1).Draw(rt, "cut"), Kind: sim.WReset})
		a := h.Go("pingA", &Req{Kind: "ping"}, func() (<-chan error, error) { return nil, h.Client.Ping(nil) })
		if h.Poll(func() bool { return h.GateParked("ping.fail") > 0 || h.IsDone(a) }) != nil || h.IsDone(a) {
			return
		}
		// the read routine notices the loss (releases A's slot) and reconnects
		online := func() bool { cur := h.Current(); return cur != nil && cur.Accepted() }
		for i := 0; i < 4 && !online(); i++ {
			h.appStep("reconnect")
		}
		if h.Current() == nil {
			return
		}
		b := h.Go("pingB", &Req{Kind: "ping"}, func() (<-chan error, error) { return nil, h.Client.Ping(nil) })
		h.SettleCall(b)
		if h.IsDone(b) {
			return // ErrMax: the slot was not free; the window is closed
		}
		h.ReleaseGate("ping.fail")
		h.Poll(func() bool { return h.IsDone(a) })
		// the broker answers B
		h.App.Step()
		h.releaseAcks(1)
		h.MustPoll("the later Ping returning: its PINGRESP arrived (an earlier Ping whose write had failed finished its epilogue meanwhile)", func() bool { return h.IsDone(b) })
		if b.Err != nil {
			h.Failf("the later Ping returned %v although its PINGRESP arrived", b.Err)
		}
		stats.For("C11").Case("ping A fails its write and is held before its epilogue; reconnect; ping B; A resumes; PINGRESP", true, "ping-slot-ownership-history")
	})
}
