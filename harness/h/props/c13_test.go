package props

import (
	"bytes"
	"errors"
	"fmt"
	"runtime"
	"strings"
	"testing"
	"time"

	"github.com/pascaldekloe/mqtt"
	"pgregory.net/rapid"
	"verifh/refmqtt"
	"verifh/sim"
	"verifh/stats"
)

// Verdicts of the strict reference on one inbound packet.
const (
	vAccept = iota
	vReject // protocol violation: ReadSlices error, fresh connection
	vEither // strictness beyond the listed violations (L5)
	vIncomplete
)

// hostileState is the reference model of what the client awaits.
type hostileState struct {
	q1      []uint16        // at-least-once identifiers awaiting PUBACK, in order
	q2pub   []uint16        // exactly-once identifiers awaiting PUBREC, in order
	q2rel   []uint16        // exactly-once identifiers awaiting PUBCOMP, in order
	subs    map[uint16]int  // SUBSCRIBE identifiers awaiting SUBACK → number of filters
	unsubs  map[uint16]bool // UNSUBSCRIBE identifiers awaiting UNSUBACK
	done1   int             // completions the model granted
	done2   int
	recs    int
	replies [][]byte
	readBuf int // 0 = the real 128 KiB
}

// step judges the first packet of b. It returns the verdict, the packet's
// size (0 when incomplete) and a description.
func (s *hostileState) step(b []byte) (verdict int, size int, why string) {
	if len(b) == 0 {
		return vIncomplete, 0, ""
	}
	typ, flags := b[0]>>4, b[0]&15
	total, lenBytes, nonMin, err := refmqtt.PacketLen(b)
	if err != nil {
		if err == refmqtt.ErrIncomplete {
			return vIncomplete, 0, "header incomplete"
		}
		return vReject, 0, "remaining length over four bytes"
	}
	rem := total - 1 - lenBytes
	body := b[1+lenBytes:]
	if len(body) > rem {
		body = body[:rem]
	}
	complete := len(b) >= total
	switch typ {
	case 0, 15, refmqtt.CONNECT, refmqtt.SUBSCRIBE, refmqtt.UNSUBSCRIBE, refmqtt.PINGREQ, refmqtt.DISCONNECT, refmqtt.CONNACK:
		if !complete {
			return vIncomplete, 0, "forbidden type, body incomplete"
		}
		return vReject, total, fmt.Sprintf("packet type %d must not come from a broker (or second CONNACK)", typ)
	}
	if typ == refmqtt.PUBLISH {
		// (a PUBLISH beyond the read buffer may be judged by the client from
		// its first buffer-load; an early rejection of an incomplete packet
		// is tolerated by the caller)
		if !complete {
			return vIncomplete, 0, "PUBLISH incomplete"
		}
		qos := flags >> 1 & 3
		if rem < 2 {
			return vReject, total, "PUBLISH without topic length"
		}
		tl := int(body[0])<<8 | int(body[1])
		if 2+tl > rem {
			return vReject, total, "PUBLISH topic exceeds remaining length"
		}
		if qos == 3 {
			return vReject, total, "PUBLISH with QoS 3"
		}
		if qos != 0 {
			if 2+tl+2 > rem {
				return vReject, total, "PUBLISH identifier exceeds remaining length"
			}
			id := uint16(body[2+tl])<<8 | uint16(body[2+tl+1])
			if id == 0 {
				return vReject, total, "PUBLISH with identifier zero"
			}
			switch qos {
			case 1:
				s.replies = append(s.replies, refmqtt.Ack(refmqtt.PUBACK, id))
			case 2:
				s.replies = append(s.replies, refmqtt.Ack(refmqtt.PUBREC, id))
			}
		}
		if s.readBuf != 0 && rem > s.readBuf && 2+tl+2 > s.readBuf {
			// the header fields of a message beyond the (shrunk) read buffer
			// do not fit in it: an artefact of the verification hook, the
			// real buffer always holds them
			return vEither, total, "PUBLISH whose header fields exceed the shrunk read buffer"
		}
		if tl == 0 || nonMin || qos == 0 && flags&8 != 0 || !refmqtt.ValidUTF8(body[2:2+tl]) || bytes.IndexByte(body[2:2+tl], 0) >= 0 {
			return vEither, total, "PUBLISH with an oddity beyond the listed violations"
		}
		return vAccept, total, "PUBLISH"
	}
	if !complete {
		return vIncomplete, 0, ""
	}
	odd := nonMin
	wantFlags := byte(0)
	if typ == refmqtt.PUBREL {
		wantFlags = 2
	}
	if flags != wantFlags {
		odd = true
	}
	id := uint16(0)
	if rem >= 2 {
		id = uint16(body[0])<<8 | uint16(body[1])
	}
	switch typ {
	case refmqtt.PUBACK, refmqtt.PUBREC, refmqtt.PUBCOMP, refmqtt.PUBREL, refmqtt.UNSUBACK:
		if rem != 2 {
			return vReject, total, fmt.Sprintf("%s with remaining length %d", refmqtt.TypeName(typ), rem)
		}
		if id == 0 {
			return vReject, total, "identifier zero"
		}
	}
	either := func(why string) (int, int, string) {
		if odd {
			return vEither, total, why + " (with reserved header flags or non-minimal length)"
		}
		return vAccept, total, why
	}
	switch typ {
	case refmqtt.PUBACK:
		if id&0xc000 != 0x8000 {
			return vReject, total, "PUBACK with a foreign identifier"
		}
		if len(s.q1) == 0 || s.q1[0] != id {
			return vReject, total, "PUBACK out of order or unsolicited"
		}
		if odd {
			return vEither, total, "in-order PUBACK with an oddity"
		}
		s.q1 = s.q1[1:]
		s.done1++
		return vAccept, total, "in-order PUBACK"
	case refmqtt.PUBREC:
		if id&0xc000 != 0xc000 {
			return vReject, total, "PUBREC with a foreign identifier"
		}
		if len(s.q2pub) == 0 || s.q2pub[0] != id {
			return vReject, total, "PUBREC out of order or unsolicited"
		}
		if odd {
			return vEither, total, "in-order PUBREC with an oddity"
		}
		s.q2pub = s.q2pub[1:]
		s.q2rel = append(s.q2rel, id)
		s.recs++
		s.replies = append(s.replies, refmqtt.Ack(refmqtt.PUBREL, id))
		return vAccept, total, "in-order PUBREC"
	case refmqtt.PUBCOMP:
		if id&0xc000 != 0xc000 {
			return vReject, total, "PUBCOMP with a foreign identifier"
		}
		if len(s.q2rel) == 0 || s.q2rel[0] != id {
			return vReject, total, "PUBCOMP out of order or unsolicited"
		}
		if odd {
			return vEither, total, "in-order PUBCOMP with an oddity"
		}
		s.q2rel = s.q2rel[1:]
		s.done2++
		return vAccept, total, "in-order PUBCOMP"
	case refmqtt.PUBREL:
		if !odd {
			s.replies = append(s.replies, refmqtt.Ack(refmqtt.PUBCOMP, id))
		}
		return either("PUBREL (tolerated also when unsolicited)")
	case refmqtt.UNSUBACK:
		if id&0xe000 != 0x4000 {
			return vReject, total, "UNSUBACK with a foreign identifier"
		}
		if !odd {
			delete(s.unsubs, id)
		}
		return either("UNSUBACK")
	case refmqtt.SUBACK:
		if rem < 3 {
			return vReject, total, "SUBACK without return codes"
		}
		if id == 0 {
			return vReject, total, "identifier zero"
		}
		if id&0xe000 != 0x6000 {
			return vReject, total, "SUBACK with a foreign identifier"
		}
		for _, c := range body[2:] {
			if c > 2 && c != 0x80 {
				return vReject, total, "SUBACK with an illegal return code"
			}
		}
		if n, ok := s.subs[id]; ok && n != rem-2 {
			delete(s.subs, id)
			return vReject, total, "SUBACK with a wrong number of return codes"
		}
		if !odd {
			delete(s.subs, id)
		}
		return either("SUBACK")
	case refmqtt.PINGRESP:
		if rem != 0 {
			return vReject, total, "PINGRESP with content"
		}
		return either("PINGRESP")
	}
	return vReject, total, "unknown"
}

// hostileSetup describes the client's outbound transfers when the hostile
// bytes arrive.
type hostileSetup struct {
	// Refused1/2: publishes refused by a failing Persistence.Save after the
	// pending ones: they are not in flight, whatever the broker says
	Refused1, Refused2 int
	N1, N2pub, N2rel   int
	Sub                int // filters of one waiting Subscribe (0 = none)
	ReadBuf            int
}

type fatalTB interface {
	Fatalf(format string, args ...interface{})
	Logf(format string, args ...interface{})
}

// runHostile drives one client against hostile bytes and compares with the
// reference. It returns a classification for the statistics.
func runHostile(t fatalTB, connack []byte, stream []byte, hs hostileSetup) (label string, nontrivial bool) {
	if hs.ReadBuf != 0 {
		old := mqtt.VerifSetReadBufSize(hs.ReadBuf)
		defer mqtt.VerifSetReadBufSize(old)
	}
	cfg := baseConfig()
	w := sim.New(t, sim.Options{Config: cfg, ClientID: clientID, Prop: "C13"})
	defer w.Shutdown(5 * time.Second)
	// (every other BigMessage is left unread: its payload is then discarded
	// by the next ReadSlices, under PauseTimeout)
	w.App.ReadBig = func(i int) bool { return (len(stream)+i)%2 == 0 }
	fail := func(format string, args ...interface{}) {
		w.Script = []string{fmt.Sprintf("setup %+v", hs), fmt.Sprintf("connack % x", connack), fmt.Sprintf("stream (%d bytes) % x", len(stream), head(stream, 200))}
		w.Failf(format, args...)
	}
	// await waits for the running ReadSlices; step starts one first. (After
	// an expiry was delivered to a waiting call it is await, not step: the
	// call may have returned already and a step would begin the next one.)
	var await func(what string) sim.AppResult
	step := func(what string) sim.AppResult {
		w.App.Step()
		return await(what)
	}
	await = func(what string) sim.AppResult {
		w.MustPoll("ReadSlices returning or waiting for input: "+what, func() bool {
			return !w.App.InCall() || w.ReaderWaiting()
		})
		if w.App.InCall() {
			return sim.AppResult{}
		}
		r, _ := w.App.Last()
		if r.Panic != "" {
			fail("panic in ReadSlices: %s", r.Panic)
		}
		return r
	}

	// --- hostile handshake reply ---
	if connack != nil {
		w.ScriptDial(sim.DialOutcome{Connack: &sim.ConnackPolicy{Kind: sim.ConnackRaw, Raw: connack}})
		r := step("hostile CONNACK")
		accept := len(connack) >= 4 && connack[0] == 0x20 && connack[1] == 2 && connack[3] == 0 && connack[2] <= 1
		if w.App.InCall() {
			// waits for the rest of CONNACK: must have a deadline, then time passes
			c := w.Current()
			if accept {
				return "connack-accept", false
			}
			if c == nil {
				fail("ReadSlices waits although no connection is alive")
			}
			if len(c.ParkNoDeadlineOffsets()) != 0 {
				fail("the handshake waits for input at inbound offset %v without a read deadline although PauseTimeout is set", c.ParkNoDeadlineOffsets())
			}
			if !w.ExpireStalledRead() {
				fail("the handshake waits for input without a deadline")
			}
			r = await("handshake expiry")
			if w.App.InCall() {
				fail("ReadSlices still waits after the handshake deadline passed")
			}
		}
		if accept {
			return "connack-accept", false
		}
		if r.Err == nil || r.Big {
			fail("hostile CONNACK % x: ReadSlices returned %s, want an error", connack, r)
		}
		refused := len(connack) >= 4 && connack[0] == 0x20 && connack[1] == 2 && connack[3] != 0
		if got := mqtt.IsConnectionRefused(r.Err); got != refused {
			fail("hostile CONNACK % x: IsConnectionRefused(%v) = %t, want %t", connack, r.Err, got, refused)
		}
		if cs := w.AllConns(); len(cs) != 0 && !cs[len(cs)-1].Closed() {
			fail("hostile CONNACK % x: the connection was not closed", connack)
		}
		step("next attempt")
		if w.DialCount() < 2 {
			fail("after the rejected CONNACK the next ReadSlices did not dial again")
		}
		return "connack-reject", true
	}

	// --- healthy preamble: transfers at each stage ---
	step("connect")
	c := w.Current()
	if c == nil || !c.Accepted() {
		fail("VERIF-INFRA: no connection in the preamble")
	}
	st := &hostileState{subs: map[uint16]int{}, unsubs: map[uint16]bool{}, readBuf: hs.ReadBuf}
	var exch []<-chan error
	for i := 0; i < hs.N1; i++ {
		ch, err := w.Client.PublishAtLeastOnce([]byte{byte(i)}, fmt.Sprintf("h1/%d", i))
		if err != nil {
			fail("VERIF-INFRA: preamble publish: %v", err)
		}
		exch = append(exch, ch)
		st.q1 = append(st.q1, 0x8000|uint16(i))
	}
	for i := 0; i < hs.N2pub+hs.N2rel; i++ {
		ch, err := w.Client.PublishExactlyOnce([]byte{byte(i)}, fmt.Sprintf("h2/%d", i))
		if err != nil {
			fail("VERIF-INFRA: preamble publish: %v", err)
		}
		exch = append(exch, ch)
		st.q2pub = append(st.q2pub, 0xc000|uint16(i))
	}
	for i := 0; i < hs.Refused1+hs.Refused2; i++ {
		w.Store.FailNext('S')
		var err error
		if i < hs.Refused1 {
			_, err = w.Client.PublishAtLeastOnce([]byte{0xee}, "refused/1")
		} else {
			_, err = w.Client.PublishExactlyOnce([]byte{0xee}, "refused/2")
		}
		w.Store.ClearFaults()
		if err == nil {
			fail("a publish whose Save failed was accepted")
		}
	}
	// PUBREC for the first N2rel
	for i := 0; i < hs.N2rel; i++ {
		id := 0xc000 | uint16(i)
		c.Send(refmqtt.Ack(refmqtt.PUBREC, id))
		st.q2pub = st.q2pub[1:]
		st.q2rel = append(st.q2rel, id)
	}
	w.MustPoll("preamble PUBREC consumed", func() bool { return w.ReaderWaiting() })
	var subCall *sim.Call
	if hs.Sub > 0 {
		var filters []string
		for i := 0; i < hs.Sub; i++ {
			filters = append(filters, fmt.Sprintf("hs/%d", i))
		}
		subCall = w.Go("sub", nil, func() (<-chan error, error) { return nil, w.Client.Subscribe(nil, filters...) })
		w.MustPoll("SUBSCRIBE written", func() bool {
			found := false
			w.WithLock(func() {
				for _, p := range c.State.Packets {
					if p.Type == refmqtt.SUBSCRIBE {
						st.subs[p.ID] = hs.Sub
						found = true
					}
				}
			})
			return found
		})
	}
	if len(c.ParkNoDeadlineOffsets()) > 1 {
		// (the wait at the packet boundary after CONNACK is the legitimate one)
	}
	deletesBefore := countDeletes(w)
	outBefore := c.OutLen()
	parksBefore := len(c.ParkNoDeadlineOffsets())

	// --- the hostile stream ---
	inBase := c.InEnqueued()
	resultsBefore := w.App.NResults()
	c.Send(stream)
	// the reference walks the stream
	type exp struct {
		verdict int
		end     int
		why     string
	}
	var exps []exp
	off := 0
	rejected := false
	for off < len(stream) {
		v, size, why := st.step(stream[off:])
		if v == vIncomplete {
			exps = append(exps, exp{v, len(stream), why})
			break
		}
		if size == 0 {
			size = len(stream) - off
		}
		off += size
		exps = append(exps, exp{v, off, why})
		if v == vReject {
			rejected = true
			break
		}
		if v == vEither {
			break // from here on the reference follows the client
		}
	}
	lastV := vAccept
	if len(exps) != 0 {
		lastV = exps[len(exps)-1].verdict
	}

	// the application keeps reading until the stream is consumed or rejected
	var firstErr error
	returns := 0
	followed := false
	scan := func() bool {
		// (a return may precede the harness's next step: look at all of them)
		for i := resultsBefore; i < w.App.NResults(); i++ {
			if r := w.App.Result(i); r.Err != nil && !r.Big {
				firstErr = r.Err
				return true
			}
		}
		return false
	}
	for round := 0; round < 4*len(exps)+8; round++ {
		if scan() {
			break
		}
		step("hostile stream")
		if scan() || w.App.InCall() {
			break
		}
		returns++
	}
	// A BigMessage tells what its packet header announced: Topic and Size (the
	// size ReadAll allocates) of some PUBLISH in the stream, also when only a
	// fragment of the packet arrived.
	checkBigs := func() {
		type announced struct {
			topic string
			size  int
		}
		var heads []announced
		for o := 0; o < len(stream); {
			total, lenBytes, _, err := refmqtt.PacketLen(stream[o:])
			if err != nil || total == 0 {
				break
			}
			if stream[o]>>4 == refmqtt.PUBLISH {
				body := stream[o+1+lenBytes:]
				rem := total - 1 - lenBytes
				if len(body) >= 2 {
					tl := int(body[0])<<8 | int(body[1])
					idLen := 0
					if stream[o]>>1&3 != 0 {
						idLen = 2
					}
					if 2+tl+idLen <= rem && 2+tl <= len(body) {
						heads = append(heads, announced{string(body[2 : 2+tl]), rem - 2 - tl - idLen})
					}
				}
			}
			o += total
		}
		for i := resultsBefore; i < w.App.NResults(); i++ {
			r := w.App.Result(i)
			if !r.Big {
				continue
			}
			found := false
			for _, a := range heads {
				if a.topic == r.BigTopic && a.size == r.BigSize {
					found = true
				}
			}
			if !found {
				fail("ReadSlices returned a BigMessage with topic %q and Size %d; no PUBLISH in the stream announces that (announced: %v)", r.BigTopic, r.BigSize, heads)
			}
		}
	}
	checkBigs()
	cur := w.Current()
	connAlive := cur == c
	// never waits without a deadline inside a packet
	boundaries := map[int]bool{inBase: true}
	for _, e := range exps {
		boundaries[inBase+e.end] = true
	}
	// (packet boundaries beyond an EITHER verdict, where the reference stopped judging)
	for o := 0; o < len(stream); {
		total, _, _, err := refmqtt.PacketLen(stream[o:])
		if err != nil || total == 0 {
			break
		}
		o += total
		boundaries[inBase+o] = true
	}
	for _, o := range c.ParkNoDeadlineOffsets()[parksBefore:] {
		// (the application's own ReadAll of a BigMessage has no deadline by
		// design, L9: with a stream which ends inside that payload it is
		// the application which waits there, not the read routine)
		if !boundaries[o] && !w.App.InReadAll() {
			// a BigMessage ReadAll runs without deadline by design (L9); the app reads all
			fail("the read routine waited for input at inbound offset %d (stream offset %d), inside a packet, without a read deadline although PauseTimeout is set", o, o-inBase)
		}
	}
	switch lastV {
	case vReject:
		if firstErr == nil {
			fail("the stream contains a protocol violation (%s), yet ReadSlices reported no error; connection alive: %t", exps[len(exps)-1].why, connAlive)
		}
		if errors.Is(firstErr, mqtt.ErrClosed) {
			fail("a protocol violation made ReadSlices report ErrClosed")
		}
		if !c.Closed() {
			fail("protocol violation (%s): ReadSlices reported %v, yet the connection was not closed", exps[len(exps)-1].why, firstErr)
		}
		step("after the violation")
		errSeq := 0
		for i := resultsBefore; i < w.App.NResults(); i++ {
			if r := w.App.Result(i); r.Err != nil && !r.Big {
				errSeq = r.EndSeq
				break
			}
		}
		redialed := false
		for _, e := range w.Events() {
			if e.Kind == sim.EvDial && e.Seq > errSeq {
				redialed = true
			}
		}
		if !redialed {
			fail("after the protocol violation the next ReadSlices did not dial again")
		}
		// … and the fresh connection starts from a clean slate: what the
		// broker sends there is received as sent (nothing of the discarded
		// stream, no skip count, no partial packet is carried over)
		if nc := w.Current(); nc != nil && nc != c && nc.Accepted() && w.App.InCall() && w.ReaderWaiting() {
			before := w.App.NResults()
			follow := &refmqtt.Packet{Type: refmqtt.PUBLISH, Topic: "after/the/reset", Payload: []byte("clean slate")}
			nc.Send(refmqtt.Encode(follow))
			w.MustPoll("ReadSlices returning the message sent on the fresh connection", func() bool {
				return w.App.NResults() > before || !w.App.InCall()
			})
			if w.App.NResults() <= before {
				fail("after the reset a PUBLISH sent on the fresh connection was not returned by ReadSlices")
			}
			if r := w.App.Result(before); r.Err != nil || string(r.Topic) != follow.Topic || string(r.Msg) != string(follow.Payload) {
				fail("after the reset the first PUBLISH on the fresh connection (topic %q, payload %q) came out as %s", follow.Topic, follow.Payload, r)
			}
			followed = true
		}
		// the reset releases whoever waited on that connection
		if subCall != nil {
			w.MustPoll("the Subscribe which was waiting on the reset connection returning", func() bool { return w.IsDone(subCall) })
			if subCall.Err == nil && len(st.subs) != 0 {
				fail("the waiting Subscribe returned nil although the connection was reset before an acceptable SUBACK")
			}
		}
	case vIncomplete:
		// the stream ends inside a packet: PauseTimeout must bound the wait
		if firstErr == nil && w.App.InReadAll() {
			// the application reads a BigMessage whose tail never comes:
			// its own I/O, without a deadline by design (L9)
			label = "stream-incomplete-inside-ReadAll"
			return label, true
		}
		if firstErr == nil {
			if !w.App.InCall() || !w.ReaderWaiting() {
				fail("VERIF-INFRA: unexpected state at the end of an incomplete stream")
			}
			// (bytes which were buffered together with the header count as
			// progress for the first period, so up to two periods may pass)
			var r sim.AppResult
			for period := 0; period < 3; period++ {
				if !w.ExpireStalledRead() {
					fail("the stream ends inside a packet (%s) and the read routine waits without a read deadline", exps[len(exps)-1].why)
				}
				r = await("expiry inside a packet")
				if !w.App.InCall() {
					break
				}
			}
			checkBigs()
			if w.App.InCall() || r.Err == nil || r.Big {
				fail("the stream ends inside a packet and three PauseTimeout periods passed without a byte, yet ReadSlices did not report an error (%s)", r)
			}
		}
	case vAccept:
		if firstErr != nil {
			fail("the reference accepts the whole stream (last packet: %s), yet ReadSlices reported %v", exps[len(exps)-1].why, firstErr)
		}
		if !connAlive || c.Closed() {
			fail("the reference accepts the whole stream, yet the connection was given up")
		}
		// replies owed by the client, in order
		want := bytes.Join(st.replies, nil)
		got := c.OutCopy()[outBefore:]
		// the last PUBLISH is acknowledged at the next invocation; the loop above made it
		if hs.Sub > 0 {
			// the SUBSCRIBE went out before outBefore was taken
		}
		if !bytes.Equal(got, want) {
			fail("replies differ from the reference: got % x, want % x", head(got, 60), head(want, 60))
		}
	}
	// no forged progress: completions and Deletes only through in-order acknowledgements
	if lastV != vEither {
		closed := 0
		for _, ch := range exch {
			select {
			case _, ok := <-ch:
				if !ok {
					closed++
				}
			default:
			}
		}
		if want := st.done1 + st.done2; closed > want {
			fail("%d exchange channels closed, the in-order acknowledgements in the stream complete only %d transfers", closed, want)
		}
		deletes := countDeletes(w) - deletesBefore
		if deletes > st.done1+st.done2 {
			fail("%d outbound records were deleted, the in-order acknowledgements in the stream complete only %d transfers", deletes, st.done1+st.done2)
		}
		if lastV == vAccept && (closed != st.done1+st.done2) {
			fail("the stream completes %d transfers in order, yet %d exchange channels closed", st.done1+st.done2, closed)
		}
	}
	if subCall != nil && w.IsDone(subCall) && subCall.Err == nil {
		// completed: the stream must contain its SUBACK
		if len(st.subs) != 0 && lastV != vEither {
			fail("the waiting Subscribe returned nil, yet the stream holds no acceptable SUBACK for it")
		}
	}
	if p := w.Panics(); len(p) != 0 {
		fail("panic in client code: %s", p[0])
	}
	names := map[int]string{vAccept: "accept", vReject: "reject", vEither: "either", vIncomplete: "incomplete"}
	label = "stream-" + names[lastV]
	nontrivial = lastV != vAccept || hs.N1+hs.N2pub+hs.N2rel > 0
	_ = rejected
	if followed {
		stats.For("C13").Label("reject-then-message-on-the-fresh-connection", 1)
	}
	return label, nontrivial
}

func countDeletes(w *sim.World) int {
	n := 0
	for _, op := range w.Store.OpsCopy() {
		if op.Kind == 'D' && op.Err == nil && op.Key >= 0x8000 && op.Key <= 0xffff {
			n++
		}
	}
	return n
}

// hostilePacket draws one packet with one hostile (or harmless) twist.
func hostilePacket(rt *rapid.T, hs hostileSetup) []byte {
	id1 := func() uint16 {
		return uint16(rapid.SampledFrom([]int{0, 0x8000, 0x8001, 0x8000 + hs.N1, 0x7fff, 0xc000, 0x4000, 0x6000, 0xffff, 1}).Draw(rt, "id"))
	}
	id2 := func() uint16 {
		return uint16(rapid.SampledFrom([]int{0, 0xc000, 0xc001, 0xc000 + hs.N2rel, 0xc000 + hs.N2rel + hs.N2pub, 0x8000, 0xbfff, 0xffff, 2}).Draw(rt, "id"))
	}
	var p []byte
	switch rapid.SampledFrom([]string{"puback", "pubrec", "pubcomp", "pubrel", "suback", "unsuback", "pingresp", "publish", "forbidden", "length", "flags", "random"}).Draw(rt, "kind") {
	case "puback":
		p = refmqtt.Ack(refmqtt.PUBACK, id1())
	case "pubrec":
		p = refmqtt.Ack(refmqtt.PUBREC, id2())
	case "pubcomp":
		p = refmqtt.Ack(refmqtt.PUBCOMP, id2())
	case "pubrel":
		p = refmqtt.Ack(refmqtt.PUBREL, id2())
	case "suback":
		id := uint16(rapid.SampledFrom([]int{0x6000, 0x6001, 0x7fff, 0x4000, 0, 0x8000}).Draw(rt, "id"))
		n := rapid.IntRange(0, 4).Draw(rt, "codes")
		codes := make([]byte, n)
		for i := range codes {
			codes[i] = byte(rapid.SampledFrom([]int{0, 1, 2, 0x80, 3, 0x81, 0xff}).Draw(rt, "code"))
		}
		p = append([]byte{0x90, byte(2 + n), byte(id >> 8), byte(id)}, codes...)
	case "unsuback":
		p = refmqtt.Ack(refmqtt.UNSUBACK, uint16(rapid.SampledFrom([]int{0x4000, 0x5fff, 0x6000, 0, 0xc000}).Draw(rt, "id")))
	case "pingresp":
		p = []byte{0xd0, 0}
	case "publish":
		qos := rapid.IntRange(0, 3).Draw(rt, "qos")
		topic := rapid.SampledFrom([]string{"a", "a/b", "", "\xff", "a\x00"}).Draw(rt, "topic")
		body := []byte{byte(len(topic) >> 8), byte(len(topic))}
		body = append(body, topic...)
		switch rapid.IntRange(0, 3).Draw(rt, "twist") {
		case 0: // topic length beyond the packet
			if rapid.IntRange(0, 3).Draw(rt, "maximal") == 0 {
				// (… up to the 16-bit maximum, where +2 wraps a 16-bit sum)
				n := rapid.SampledFrom([]int{0xffff, 0xfffe, 0xfffd, 0x8000, 0x7fff}).Draw(rt, "announced")
				body[0], body[1] = byte(n>>8), byte(n)
			} else {
				body[1] += byte(rapid.IntRange(1, 200).Draw(rt, "excess"))
			}
		case 1:
			if qos == 1 || qos == 2 {
				body = append(body, 0, 0) // identifier zero
			}
		default:
			if qos == 1 || qos == 2 {
				id := uint16(rapid.IntRange(1, 0xffff).Draw(rt, "pid"))
				body = append(body, byte(id>>8), byte(id))
			}
		}
		if rapid.IntRange(0, 3).Draw(rt, "cutID") == 0 && len(body) > 2 {
			body = body[:len(body)-1]
		}
		body = append(body, bytes.Repeat([]byte{'x'}, rapid.SampledFrom([]int{0, 1, 5, 300}).Draw(rt, "payload"))...)
		p = append([]byte{0x30 | byte(qos)<<1 | byte(rapid.SampledFrom([]int{0, 0, 1, 8, 9}).Draw(rt, "pflags"))}, encodeLen(len(body))...)
		p = append(p, body...)
	case "forbidden":
		typ := byte(rapid.SampledFrom([]int{0, 1, 2, 8, 10, 12, 14, 15}).Draw(rt, "type"))
		n := rapid.IntRange(0, 6).Draw(rt, "n")
		p = append([]byte{typ << 4, byte(n)}, bytes.Repeat([]byte{0}, n)...)
		if typ == 2 {
			p = []byte{0x20, 2, 0, 0}
		}
	case "length":
		typ := byte(rapid.SampledFrom([]int{4, 5, 6, 7, 9, 11, 13}).Draw(rt, "type"))
		fl := byte(0)
		if typ == 6 {
			fl = 2
		}
		switch rapid.IntRange(0, 4).Draw(rt, "how") {
		case 4: // a plausible identifier (the one next in line among them) with surplus bytes behind it
			id := id1()
			if typ >= 5 && typ <= 7 {
				id = id2()
			}
			if typ == 9 || typ == 11 {
				id = uint16(rapid.SampledFrom([]int{0x6000, 0x4000}).Draw(rt, "rid"))
			}
			k := rapid.IntRange(1, 2).Draw(rt, "surplus")
			p = append([]byte{typ<<4 | fl, byte(2 + k), byte(id >> 8), byte(id)}, bytes.Repeat([]byte{0}, k)...)
			if typ == 13 {
				p = []byte{0xd0, 1, 0}
			}
			if typ == 9 {
				p = []byte{0x90, 3, 0x60, 0, 0} // (a SUBACK has no fixed length)
			}
		case 0: // wrong remaining length
			n := rapid.SampledFrom([]int{0, 1, 3, 4}).Draw(rt, "n")
			p = append([]byte{typ<<4 | fl, byte(n)}, bytes.Repeat([]byte{0x80}, n)...)
		case 1: // five length bytes
			p = []byte{typ<<4 | fl, 0x80, 0x80, 0x80, 0x80, 0x00}
		case 2: // four length bytes, non-minimal
			p = []byte{typ<<4 | fl, 0x82, 0x80, 0x80, 0x00, 0x80, 0x00}
		case 3: // announces much, delivers nothing more
			p = []byte{typ<<4 | fl, 0xff, 0xff, 0xff, 0x7f}
		}
	case "flags":
		typ := byte(rapid.SampledFrom([]int{4, 5, 6, 7, 9, 11, 13}).Draw(rt, "type"))
		fl := byte(rapid.IntRange(0, 15).Draw(rt, "flags"))
		id := id1()
		if typ >= 5 && typ <= 7 {
			id = id2()
		}
		switch typ {
		case 13:
			p = []byte{typ<<4 | fl, 0}
		case 9:
			p = []byte{typ<<4 | fl, 3, 0x60, 0x00, 0}
		default:
			p = []byte{typ<<4 | fl, 2, byte(id >> 8), byte(id)}
		}
	case "random":
		p = rapid.SliceOfN(rapid.Byte(), 1, 12).Draw(rt, "bytes")
	}
	return p
}

func encodeLen(n int) []byte {
	var b []byte
	for n > 127 {
		b = append(b, byte(n&127|128))
		n >>= 7
	}
	return append(b, byte(n))
}

// C13 — hostile broker input: no panic, reset on violation, no forged progress.
func TestC13Hostile(t *testing.T) {
	rapid.Check(t, func(rt *rapid.T) {
		hs := hostileSetup{
			N1:      rapid.IntRange(0, 3).Draw(rt, "pending1"),
			N2pub:   rapid.IntRange(0, 2).Draw(rt, "pending2pub"),
			N2rel:   rapid.IntRange(0, 2).Draw(rt, "pending2rel"),
			Sub:     rapid.SampledFrom([]int{0, 0, 1, 3}).Draw(rt, "waitingSubscribe"),
			ReadBuf: rapid.SampledFrom([]int{0, 0, 64, 256}).Draw(rt, "readBuf"),
		}
		if rapid.IntRange(0, 3).Draw(rt, "refusedPublishes") == 0 {
			hs.Refused1 = rapid.IntRange(0, 2).Draw(rt, "refused1")
			hs.Refused2 = rapid.IntRange(0, 2).Draw(rt, "refused2")
		}
		var connack, stream []byte
		if rapid.IntRange(0, 5).Draw(rt, "hostileHandshake") == 0 {
			connack = rapid.OneOf(
				rapid.Custom(func(rt *rapid.T) []byte {
					return []byte{0x20, 2, byte(rapid.SampledFrom([]int{0, 1, 2, 0x80, 0xff}).Draw(rt, "flags")), byte(rapid.SampledFrom([]int{0, 1, 5, 6, 255}).Draw(rt, "code"))}
				}),
				rapid.SliceOfN(rapid.Byte(), 0, 6),
				rapid.SampledFrom([][]byte{{0x20}, {0x20, 2}, {0x20, 2, 0}, {0x20, 3, 0, 0}, {0x21, 2, 0, 0}, {0x30, 2, 0, 0}, {}}),
			).Draw(rt, "connack")
			if connack == nil {
				connack = []byte{}
			}
		} else {
			n := rapid.IntRange(1, 4).Draw(rt, "packets")
			for i := 0; i < n; i++ {
				// mostly valid traffic around one hostile packet
				if i < n-1 && rapid.Bool().Draw(rt, "benign") {
					stream = append(stream, rapid.SampledFrom([][]byte{{0xd0, 0}, {0x30, 3, 0, 1, 'x'}, {0x62, 2, 0x70, 0x01}}).Draw(rt, "benignPacket")...)
					continue
				}
				stream = append(stream, hostilePacket(rt, hs)...)
			}
		}
		// the stream may end anywhere inside its last packet (e.g. in the
		// payload of a message beyond the read buffer which the application
		// does not read): then silence
		if connack == nil && len(stream) > 2 && rapid.IntRange(0, 5).Draw(rt, "cutTail") == 0 {
			stream = stream[:len(stream)-rapid.IntRange(1, min(len(stream)-1, 200)).Draw(rt, "cutBytes")]
		}
		label, nontrivial := runHostile(rt, connack, stream, hs)
		stats.For("C13").Case(fmt.Sprintf("setup %+v connack % x stream % x", hs, connack, stream), nontrivial, label)
	})
}

// allocation stays below the announced size: a header which announces a huge
// packet and delivers little must not make the client allocate that much.
func TestC13Allocation(t *testing.T) {
	rapid.Check(t, func(rt *rapid.T) {
		announce := rapid.SampledFrom([]int{1 << 20, 16 << 20, 200 << 20, 268435455}).Draw(rt, "announce")
		typ := byte(rapid.SampledFrom([]int{3, 3, 4, 9, 13, 0}).Draw(rt, "type"))
		deliver := rapid.IntRange(0, 3000).Draw(rt, "deliver")
		w := sim.New(rt, sim.Options{Config: baseConfig(), ClientID: clientID, Prop: "C13"})
		defer w.Shutdown(5 * time.Second)
		w.App.ReadBig = func(int) bool { return false }
		w.App.Step()
		w.MustPoll("connect", w.ReaderWaiting)
		c := w.Current()
		pkt := append([]byte{typ << 4}, encodeLen(announce)...)
		pkt = append(pkt, 0, 3, 'b', 'i', 'g')
		pkt = append(pkt, bytes.Repeat([]byte{'z'}, deliver)...)
		runtime.GC()
		var before, after runtime.MemStats
		runtime.ReadMemStats(&before)
		c.Send(pkt)
		for i := 0; i < 3; i++ {
			w.App.Step()
			w.MustPoll("ReadSlices returning or waiting", func() bool { return !w.App.InCall() || w.ReaderWaiting() })
			if w.App.InCall() {
				w.ExpireStalledRead()
				w.MustPoll("ReadSlices returning", func() bool { return !w.App.InCall() || w.ReaderWaiting() })
			}
		}
		runtime.ReadMemStats(&after)
		grown := int(after.TotalAlloc - before.TotalAlloc)
		// slack: the harness logs the delivered bytes and dumps nothing big
		const slack = 4 << 20
		if grown > slack && grown > announce/2 {
			w.Script = []string{fmt.Sprintf("type %d announces %d bytes, delivers %d", typ, announce, deliver)}
			w.Failf("receiving a packet of type %d which announces %d bytes and delivers %d made the process allocate %d bytes", typ, announce, deliver, grown)
		}
		// (a BigMessage for it tells what the header announced, nothing else:
		// its Size is what ReadAll will allocate)
		for i := 0; i < w.App.NResults(); i++ {
			if r := w.App.Result(i); r.Big && (r.BigTopic != "big" || r.BigSize != announce-5) {
				w.Script = []string{fmt.Sprintf("type %d announces %d bytes, delivers %d", typ, announce, deliver)}
				w.Failf("a PUBLISH to \"big\" which announces %d bytes of payload and delivers %d came out as BigMessage with topic %q and Size %d", announce-5, deliver, r.BigTopic, r.BigSize)
			}
		}
		if p := w.Panics(); len(p) != 0 {
			w.Failf("panic in client code: %s", p[0])
		}
		stats.For("C13").Case(fmt.Sprintf("alloc type=%d announce=%d deliver=%d grown=%d", typ, announce, deliver, grown), true, "allocation-probe")
	})
}

var _ = strings.Repeat
