package props

import (
	"errors"
	"fmt"
	"testing"
	"time"

	"github.com/pascaldekloe/mqtt"

	"pgregory.net/rapid"
	"verifh/sim"
	"verifh/stats"
)

// TestC14PingNeverWritten: a Ping whose slot is emptied by somebody else
// while it still waits for the write lock, and which then never gets to
// write. The history (every step of it healthy use): Ping A is written and
// abandoned through its quit channel, its PINGRESP is late; another requester
// sits inside Write (the transport does not take its bytes yet) and holds the
// write lock; Ping B installs its callback and queues for the lock; the slot
// of B is emptied (the late PINGRESP arrives, or the connection is lost);
// B's quit fires. B wrote nothing, which the wire shows. Its return must then
// be of a class which says so: not success, not "abandoned after
// submission", not "lost while awaiting the response".
func TestC14PingNeverWritten(t *testing.T) {
	rapid.Check(t, func(rt *rapid.T) {
		h := newH(rt, "C14", sim.Options{Config: baseConfig()})
		defer h.Shutdown(2 * time.Second)
		h.appStep("first connect")
		c1 := h.Current()
		if c1 == nil || !c1.Accepted() {
			return
		}
		emptiedBy := rapid.SampledFrom([]string{"pingresp", "pingresp", "break"}).Draw(rt, "slotEmptiedBy")
		holder := rapid.SampledFrom([]string{"sub", "pub0", "pub1"}).Draw(rt, "lockHolder")
		cut := rapid.IntRange(0, 3).Draw(rt, "parkAt")
		quitFirst := rapid.IntRange(0, 3).Draw(rt, "quitBeforeTheSlotIsEmptied") == 0
		script := fmt.Sprintf("ping A written, abandoned; %s parked inside Write at +%d; ping B queues; slot emptied by %s (quit of B first: %t); quit of B", holder, cut, emptiedBy, quitFirst)

		qa := make(chan struct{})
		a := h.Go("pingA", &Req{Kind: "ping", Quit: "later"}, func() (<-chan error, error) { return nil, h.Client.Ping(qa) })
		h.SettleCall(a)
		if h.IsDone(a) || len(c1.Owed()) == 0 {
			return // (not written: nothing to come late)
		}
		close(qa)
		h.MustPoll("the abandoned Ping returning", func() bool { return h.IsDone(a) })
		if !errors.Is(a.Err, mqtt.ErrAbandoned) {
			h.Failf("Ping with its PINGREQ written and its quit fired returned %v, want ErrAbandoned", a.Err)
		}

		c1.ArmWrite(sim.WFault{Off: c1.OutLen() + cut, Kind: sim.WPark})
		var w *sim.Call
		switch holder {
		case "sub":
			w = h.Go("sub", &Req{Kind: "sub", Filters: []string{"held/#"}, Level: 1, Quit: "nil"}, func() (<-chan error, error) { return nil, h.Client.Subscribe(nil, "held/#") })
		case "pub0":
			w = h.Go("pub0", &Req{Kind: "pub0", Topic: "held", Payload: []byte("x"), Quit: "nil"}, func() (<-chan error, error) { return nil, h.Client.Publish(nil, []byte("x"), "held") })
		default:
			w = h.Go("pub1", &Req{Kind: "pub1", Topic: "held", Payload: []byte("x"), QoS: 1, Quit: "nil"}, func() (<-chan error, error) { return h.Client.PublishAtLeastOnce([]byte("x"), "held") })
		}
		h.MustPoll("the lock holder parking inside Write", func() bool { return c1.WritersParked() > 0 || h.IsDone(w) })
		if h.IsDone(w) {
			return
		}

		// bytes accepted by the transports, all connections (a reconnect may
		// intervene: a queued Ping then goes out on the next connection)
		total := func() int {
			n := 0
			for _, c := range h.AllConns() {
				n += c.OutLen()
			}
			return n
		}
		written := total()
		qb := make(chan struct{})
		b := h.Go("pingB", &Req{Kind: "ping", Quit: "later"}, func() (<-chan error, error) { return nil, h.Client.Ping(qb) })
		h.SettleCall(b)
		if h.IsDone(b) {
			// ErrMax: A's slot was still taken; the window is closed
			stats.For("C14").Case(script+" [B refused]", false, "ping-never-written:refused")
			return
		}
		if quitFirst {
			close(qb)
		}
		switch emptiedBy {
		case "pingresp":
			h.releaseAcks(1)
		case "break":
			h.Act("break conn=%d", c1.N)
			c1.Break(rapid.Bool().Draw(rt, "graceful"))
			h.settleInbound()
		}
		if !quitFirst {
			close(qb)
		}
		h.MustPoll("the queued Ping returning after its quit fired", func() bool { return h.IsDone(b) })
		if total() != written {
			// (B or the holder got bytes out: another history)
			stats.For("C14").Case(script+" [bytes written meanwhile]", false, "ping-never-written:bytes-written")
		} else {
			switch {
			case b.Err == nil:
				h.Failf("%s: Ping B returned nil (success), yet not one byte was written while it ran (the connections hold %d bytes before and after)", script, written)
			case errors.Is(b.Err, mqtt.ErrAbandoned), errors.Is(b.Err, mqtt.ErrBreak):
				h.Failf("%s: Ping B returned %q, which says that its PINGREQ was submitted, yet not one byte was written while it ran", script, b.Err)
			}
			stats.For("C14").Case(script, true, "ping-never-written:"+emptiedBy)
		}
		if c1.WritersParked() > 0 {
			c1.ReleaseWrite()
		}
		// (the holder's own fate is not judged here: its response is never
		// released, the shutdown ends it)
		noPanics(h)
	})
}
