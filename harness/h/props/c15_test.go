package props

// C15, pure half — stored records round-trip exactly; single-byte damage and
// truncation below 12 bytes are always detected. Runs against the library's
// own encodeValue/decodeValue (exported for the harness under build tag verif).
//
// Layout oracle: packet ‖ LE64(seqNo) ‖ BE32(FNV-1a-32(packet ‖ LE64(seqNo)))
// with an FNV-1a written here, not hash/fnv.
//
// Damage, per generated record of n bytes:
//   - n ≤ 300: every position × every one of the 255 other values (complete;
//     counted with InnerExhaustive);
//   - 300 < n ≤ 4096: every position × 2 drawn values, plus all 255 values at
//     8 drawn positions and at the 12 trailer bytes;
//   - n > 4096: the same on the trailer, the first and last byte of every
//     buffer and 1024 drawn positions (a decode costs n; all positions would
//     cost n² ≈ 5 s);
//   - every truncation to fewer than 12 bytes must be reported, and so must
//     drawn values of 4–11 bytes which end in the FNV-1a of their own head;
//   - truncations to ≥ 12 bytes and two-byte damage are measured (counted when
//     undetected), never asserted: the checksum has 32 bits.

import (
	"bytes"
	"fmt"
	"net"
	"os"
	"strings"
	"testing"

	"github.com/pascaldekloe/mqtt"
	"pgregory.net/rapid"
	"verifh/stats"
)

func ownFNV1a32(parts ...[]byte) uint32 {
	h := uint32(2166136261)
	for _, p := range parts {
		for _, c := range p {
			h ^= uint32(c)
			h *= 16777619
		}
	}
	return h
}

func le64(v uint64) []byte {
	b := make([]byte, 8)
	for i := range b {
		b[i] = byte(v >> (8 * uint(i)))
	}
	return b
}

func be32(v uint32) []byte {
	return []byte{byte(v >> 24), byte(v >> 16), byte(v >> 8), byte(v)}
}

func flatten(bufs net.Buffers) []byte {
	var out []byte
	for _, b := range bufs {
		out = append(out, b...)
	}
	return out
}

// decodeGuarded calls the library's decoder; a panic is text, not a crash.
func decodeGuarded(buf []byte) (packet []byte, seqNo uint64, err error, panicText string) {
	defer func() {
		if v := recover(); v != nil {
			panicText = fmt.Sprint(v)
		}
	}()
	packet, seqNo, err = mqtt.VerifDecodeValue(buf)
	return
}

func c15Stats() *stats.Recorder {
	if p := os.Getenv("VERIF_PROP"); strings.HasPrefix(p, "C15") {
		return stats.For(p)
	}
	return stats.For("C15")
}

var c15SeqNos = []uint64{0, 1, 1<<32 - 1, 1 << 32, 1 << 63, 1<<64 - 1}

func TestC15pRecordCodec(t *testing.T) {
	if !mqtt.VerifExportAvailable {
		t.Skip("the export shim does not compile against this tree")
	}
	st := c15Stats()
	rapid.Check(t, func(rt *rapid.T) {
		// ---- generate ----
		nBufs := rapid.IntRange(0, 4).Draw(rt, "buffers")
		sizeClass := rapid.SampledFrom([]string{"small", "small", "small", "small", "small", "small", "small", "tiny", "tiny", "medium"}).Draw(rt, "sizeClass")
		if rapid.IntRange(0, 399).Draw(rt, "huge?") == 399 {
			sizeClass = "huge"
		}
		lens := make([]int, nBufs)
		for i := range lens {
			switch sizeClass {
			case "tiny":
				lens[i] = rapid.IntRange(0, 3).Draw(rt, "len")
			case "small":
				lens[i] = rapid.IntRange(0, 72).Draw(rt, "len")
			case "medium":
				lens[i] = rapid.IntRange(0, 1000).Draw(rt, "len")
			case "huge":
				lens[i] = rapid.IntRange(0, 17500).Draw(rt, "len")
			}
		}
		fill := rapid.SampledFrom([]string{"random", "random", "zero", "ff", "ramp"}).Draw(rt, "fill")
		spare := rapid.IntRange(0, 2).Draw(rt, "spareCapacity")
		packet := make(net.Buffers, nBufs, nBufs+spare)
		total := 0
		for i, n := range lens {
			var b []byte
			switch {
			case n == 0 && rapid.Bool().Draw(rt, "nilBuffer"):
				b = nil
			case fill == "random" && n <= 72:
				b = rapid.SliceOfN(rapid.Byte(), n, n).Draw(rt, "bytes")
			case fill == "random":
				// long buffers: a drawn 64-bit state stretched by xorshift
				x := rapid.Uint64Min(1).Draw(rt, "bytesSeed")
				b = make([]byte, n)
				for j := range b {
					x ^= x << 13
					x ^= x >> 7
					x ^= x << 17
					b[j] = byte(x)
				}
			default:
				b = make([]byte, n)
				for j := range b {
					switch fill {
					case "ff":
						b[j] = 0xff
					case "ramp":
						b[j] = byte(j + i)
					}
				}
			}
			packet[i] = b
			total += n
		}
		var seqNo uint64
		if k := rapid.IntRange(0, len(c15SeqNos)+2).Draw(rt, "seqNoKind"); k < len(c15SeqNos) {
			seqNo = c15SeqNos[k]
		} else {
			seqNo = rapid.Uint64().Draw(rt, "seqNo")
		}

		desc := fmt.Sprintf("packet buffers=%v fill=%s spare=%d seqNo=%#x", lens, fill, spare, seqNo)
		if total <= 24 {
			desc += fmt.Sprintf(" bytes=%x", flatten(packet))
		} else {
			desc += fmt.Sprintf(" fnv=%08x", ownFNV1a32(flatten(packet)))
		}
		n := total + 12
		var sizeLabel string
		switch {
		case total == 0:
			sizeLabel = "packet-empty"
		case n <= 300:
			sizeLabel = "record≤300(complete-single-byte-enumeration)"
		case n <= 4096:
			sizeLabel = "record≤4096(all-positions)"
		default:
			sizeLabel = "record>4096(sampled-positions)"
		}
		st.Case(desc, total >= 1, sizeLabel, fmt.Sprintf("buffers-%d", nBufs))

		// ---- encode: layout, inputs untouched ----
		flatPacket := flatten(packet)
		copies := make([][]byte, nBufs)
		for i, b := range packet {
			copies[i] = append([]byte(nil), b...)
		}
		input := packet // same backing array
		var encoded net.Buffers
		if pt := func() (pt string) {
			defer func() {
				if v := recover(); v != nil {
					pt = fmt.Sprint(v)
				}
			}()
			encoded = mqtt.VerifEncodeValue(input, seqNo)
			return ""
		}(); pt != "" {
			violate(rt, "C15", "encodeValue panicked on %s: %s", desc, pt)
		}
		if len(packet) != nBufs {
			rt.Fatalf("VERIF-INFRA: C15: the harness lost its packet")
		}
		for i, b := range packet {
			if !bytes.Equal(b, copies[i]) || len(b) != len(copies[i]) {
				violate(rt, "C15", "encodeValue modified buffer %d of its input on %s", i, desc)
			}
		}
		flat := flatten(encoded)
		want := append(append(append([]byte(nil), flatPacket...), le64(seqNo)...), be32(ownFNV1a32(flatPacket, le64(seqNo)))...)
		if !bytes.Equal(flat, want) {
			violate(rt, "C15", "stored value of %s is not packet ‖ LE64(seqNo) ‖ BE32(FNV-1a): tail got %x, want %x (lengths %d and %d)",
				desc, tail(flat, 12), tail(want, 12), len(flat), len(want))
		}

		// ---- round trip ----
		p, s, err, pt := decodeGuarded(append([]byte(nil), flat...))
		if pt != "" {
			violate(rt, "C15", "decodeValue panicked on the stored value of %s: %s", desc, pt)
		}
		if err != nil || s != seqNo || !bytes.Equal(p, flatPacket) {
			violate(rt, "C15", "round trip of %s: got (%d bytes, seqNo %#x, error %v), packet equal: %t", desc, len(p), s, err, bytes.Equal(p, flatPacket))
		}

		// ---- damage ----
		work := append([]byte(nil), flat...)
		mustDetect := func(what string) {
			_, _, err, pt := decodeGuarded(work)
			if pt != "" {
				violate(rt, "C15", "decodeValue panicked on the stored value of %s with %s: %s", desc, what, pt)
			}
			if err == nil {
				violate(rt, "C15", "the stored value of %s with %s was accepted as intact (record of %d bytes)", desc, what, n)
			}
		}
		single := func(pos int, val byte) {
			orig := work[pos]
			if val == orig {
				return
			}
			work[pos] = val
			if _, _, err, pt := decodeGuarded(work); err == nil || pt != "" {
				mustDetect(fmt.Sprintf("byte %d (%s) changed from %#02x to %#02x", pos, regionOf(pos, total), orig, val))
			}
			work[pos] = orig
		}
		allValues := func(pos int) {
			for v := 0; v < 256; v++ {
				single(pos, byte(v))
			}
		}

		switch {
		case n <= 300:
			for pos := 0; pos < n; pos++ {
				allValues(pos)
			}
			st.InnerExhaustive(1)
			st.Label("single-byte-damage-decodes", n*255)
		case n <= 4096:
			xa := byte(rapid.IntRange(1, 255).Draw(rt, "xorA"))
			xb := byte(rapid.IntRange(1, 255).Draw(rt, "xorB"))
			for pos := 0; pos < n; pos++ {
				single(pos, work[pos]^xa)
				single(pos, work[pos]^xb)
			}
			for i := 0; i < 8; i++ {
				allValues(rapid.IntRange(0, n-1).Draw(rt, "fullPos"))
			}
			for pos := total; pos < n; pos++ {
				allValues(pos)
			}
			st.Label("single-byte-damage-decodes", n*2+20*255)
		default:
			xa := byte(rapid.IntRange(1, 255).Draw(rt, "xorA"))
			positions := make([]int, 0, 1100)
			off := 0
			for _, l := range lens {
				if l > 0 {
					positions = append(positions, off, off+l-1)
				}
				off += l
			}
			for i := 0; i < 1024; i++ {
				positions = append(positions, rapid.IntRange(0, n-1).Draw(rt, "pos"))
			}
			for _, pos := range positions {
				single(pos, work[pos]^xa)
			}
			for pos := total; pos < n; pos++ {
				single(pos, work[pos]^xa)
				single(pos, work[pos]^0x01)
				single(pos, work[pos]^0x80)
			}
			allValues(rapid.IntRange(total, n-1).Draw(rt, "fullTrailerPos"))
			st.Label("single-byte-damage-decodes", len(positions)+36+255)
		}
		if !bytes.Equal(work, flat) {
			rt.Fatalf("VERIF-INFRA: C15: the damage loop did not restore its buffer")
		}

		// truncation below 12 bytes: always; from the front of the value and
		// from its end, as a torn write may leave either
		for l := 0; l < 12 && l < n; l++ {
			for _, cut := range [][]byte{flat[:l], flat[n-l:]} {
				_, _, err, pt := decodeGuarded(append([]byte(nil), cut...))
				if pt != "" {
					violate(rt, "C15", "decodeValue panicked on %d bytes (%x) cut from the stored value of %s: %s", l, cut, desc, pt)
				}
				if err == nil {
					violate(rt, "C15", "%d bytes (%x) cut from the stored value of %s were accepted as intact", l, cut, desc)
				}
			}
		}

		// Any value shorter than 12 bytes, also one which is consistent in
		// itself: its last four bytes are the FNV-1a of what precedes them.
		short := rapid.SliceOfN(rapid.Byte(), 7, 7).Draw(rt, "shortValue")
		for l := 4; l < 12; l++ {
			v := append(append([]byte(nil), short[:l-4]...), be32(ownFNV1a32(short[:l-4]))...)
			_, _, err, pt := decodeGuarded(v)
			if pt != "" {
				violate(rt, "C15", "decodeValue panicked on the %d-byte value %x (checksum consistent): %s", l, v, pt)
			}
			if err == nil {
				violate(rt, "C15", "the %d-byte value %x (checksum consistent) was accepted as intact", l, v)
			}
		}

		// ---- measured, not asserted ----
		if n <= 4096 {
			undetected := 0
			for l := 12; l < n; l++ {
				_, _, err, pt := decodeGuarded(flat[:l:l])
				if pt != "" {
					violate(rt, "C15", "decodeValue panicked on the stored value of %s truncated to %d bytes: %s", desc, l, pt)
				}
				if err == nil {
					undetected++
				}
			}
			st.Label("measured:truncations≥12-tried", n-12)
			if undetected != 0 {
				st.Label("measured:truncations≥12-undetected", undetected)
			}
		}
		pairs := 48
		undetected := 0
		for i := 0; i < pairs; i++ {
			p1 := rapid.IntRange(0, n-1).Draw(rt, "pairPos1")
			var p2 int
			if rapid.Bool().Draw(rt, "pairAdjacent") && p1+1 < n {
				p2 = p1 + 1
			} else {
				p2 = rapid.IntRange(0, n-1).Draw(rt, "pairPos2")
			}
			if p1 == p2 {
				continue
			}
			x1 := byte(rapid.IntRange(1, 255).Draw(rt, "pairXor1"))
			x2 := byte(rapid.IntRange(1, 255).Draw(rt, "pairXor2"))
			work[p1] ^= x1
			work[p2] ^= x2
			_, _, err, pt := decodeGuarded(work)
			if pt != "" {
				violate(rt, "C15", "decodeValue panicked on the stored value of %s with bytes %d and %d changed: %s", desc, p1, p2, pt)
			}
			if err == nil {
				undetected++
				st.Note("measured:two-byte-undetected-example", fmt.Sprintf("%s: bytes %d^%#02x and %d^%#02x", desc, p1, x1, p2, x2))
			}
			work[p1] ^= x1
			work[p2] ^= x2
		}
		st.Label("measured:two-byte-damage-tried", pairs)
		if undetected != 0 {
			st.Label("measured:two-byte-damage-undetected", undetected)
		}

		// the last hashed byte together with one checksum byte: the pair with
		// the least mixing between the two changes; complete for that pair
		if n <= 64 && rapid.IntRange(0, 15).Draw(rt, "structuredPairs") == 0 {
			undetected := 0
			last := n - 5
			for v := 1; v < 256; v++ {
				work[last] ^= byte(v)
				for d := n - 4; d < n; d++ {
					orig := work[d]
					for w := 1; w < 256; w++ {
						work[d] = orig ^ byte(w)
						if _, _, err, _ := decodeGuarded(work); err == nil {
							undetected++
						}
					}
					work[d] = orig
				}
				work[last] ^= byte(v)
			}
			st.Label("measured:last-hashed-byte×checksum-byte-tried", 255*4*255)
			if undetected != 0 {
				st.Label("measured:last-hashed-byte×checksum-byte-undetected", undetected)
			}
		}
	})
}

func tail(b []byte, n int) []byte {
	if len(b) > n {
		return b[len(b)-n:]
	}
	return b
}

func regionOf(pos, packetLen int) string {
	switch {
	case pos < packetLen:
		return "packet"
	case pos < packetLen+8:
		return "sequence number"
	}
	return "checksum"
}
