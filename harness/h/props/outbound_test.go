package props

import (
	"bytes"
	"fmt"
	"sort"

	"github.com/pascaldekloe/mqtt"

	"verifh/refmqtt"
	"verifh/sim"
)

// Msg is the history of one persisted publish, derived from the event log.
type Msg struct {
	Call        *sim.Call
	Req         *Req
	ID          uint16
	SaveOp      int // index in Store.Ops of the accepting Save
	SaveSeq     int // event number of that Save
	AcceptedSeq int // event number of the call's return
	RelSaveSeq  int // event number of the successful PUBREL save (0 = none)
	DeleteSeq   int // event number of the successful final Delete (0 = none)
	RecSentSeq  int // first time the broker released PUBREC(id)
	FinalSeq    int // first time the broker released PUBACK(id) resp. PUBCOMP(id)
	// Inherited marks a transfer which was pending when this generation adopted the session.
	Inherited    bool
	InheritedRel bool // it was at the PUBREL stage then
}

// stripTrailer removes the 12-byte storage trailer of a saved value.
// plainRecords: the world of the running case stores bare packets (set by newH).
var plainRecords bool

func stripTrailer(v []byte) []byte {
	if plainRecords {
		return v
	}
	if len(v) < 12 {
		return nil
	}
	return v[:len(v)-12]
}

// messages derives the accepted persisted publishes of this world, in
// acceptance order per level (the order of their Save operations).
func (h *H) messages() []*Msg {
	ops := h.Store.OpsCopy()
	events := h.Events()
	byTopic := map[string]*Msg{}
	byID := map[uint16]*Msg{}
	var list []*Msg
	calls := map[string]*sim.Call{}
	h.WithLock(func() {
		for _, c := range h.Calls {
			if r, ok := c.Meta.(*Req); ok && (r.Kind == "pub1" || r.Kind == "pub2") {
				calls[r.Topic] = c
			}
		}
	})
	for _, im := range h.inherited {
		m := *im
		m.SaveSeq, m.AcceptedSeq, m.SaveOp = -1, -1, -1
		m.RelSaveSeq, m.DeleteSeq, m.RecSentSeq, m.FinalSeq = 0, 0, 0, 0
		if m.InheritedRel {
			m.RelSaveSeq, m.RecSentSeq = -1, -1
		}
		byTopic[m.Req.Topic] = &m
		byID[m.ID] = &m
		list = append(list, &m)
	}
	for i, op := range ops {
		if op.Err != nil || op.Key < 0x8000 || op.Key > 0xffff {
			continue
		}
		switch op.Kind {
		case 'S':
			p, _, err := refmqtt.Decode(stripTrailer(op.Val))
			if err != nil {
				h.Failf("store operation %d saves under key %#x a value which is no well-formed packet + trailer: %v", i, op.Key, err)
			}
			switch p.Type {
			case refmqtt.PUBLISH:
				c := calls[p.Topic]
				if c == nil {
					h.Failf("store operation %d saves a PUBLISH with topic %q nobody requested", i, p.Topic)
				}
				if uint(p.ID) != op.Key {
					h.Failf("store operation %d: key %#x holds PUBLISH with identifier %#x", i, op.Key, p.ID)
				}
				m := &Msg{Call: c, Req: c.Meta.(*Req), ID: p.ID, SaveOp: i, SaveSeq: op.Seq}
				if old := byTopic[p.Topic]; old != nil {
					h.Failf("PUBLISH for topic %q saved twice (operations %d and %d)", p.Topic, old.SaveOp, i)
				}
				byTopic[p.Topic] = m
				byID[p.ID] = m
				list = append(list, m)
			case refmqtt.PUBREL:
				m := byID[p.ID]
				if m == nil || uint(p.ID) != op.Key {
					h.Failf("store operation %d saves PUBREL %#x under key %#x without a PUBLISH of that identifier", i, p.ID, op.Key)
				}
				if m.RelSaveSeq == 0 {
					m.RelSaveSeq = op.Seq
				}
			default:
				h.Failf("store operation %d saves a %s under outbound key %#x", i, refmqtt.TypeName(p.Type), op.Key)
			}
		case 'D':
			if m := byID[uint16(op.Key)]; m != nil && m.DeleteSeq == 0 {
				m.DeleteSeq = op.Seq
			}
		}
	}
	h.WithLock(func() {
		for _, m := range list {
			if !m.Inherited && m.Call.Done && m.Call.Err == nil {
				m.AcceptedSeq = m.Call.EndSeq
			}
		}
	})
	// acknowledgements released by the broker
	for _, e := range events {
		if e.Kind != sim.EvBrokerSend {
			continue
		}
		ps, _, _ := refmqtt.DecodeAll(e.Data)
		for _, p := range ps {
			m := byID[p.ID]
			if m == nil {
				continue
			}
			switch {
			case p.Type == refmqtt.PUBREC && m.RecSentSeq == 0:
				m.RecSentSeq = e.Seq
			case (p.Type == refmqtt.PUBACK && m.Req.QoS == 1 || p.Type == refmqtt.PUBCOMP && m.Req.QoS == 2) && m.FinalSeq == 0:
				m.FinalSeq = e.Seq
			}
		}
	}
	return list
}

// refPublish is the reference encoding of a message's first transmission.
func refPublish(m *Msg) []byte {
	return refmqtt.Encode(&refmqtt.Packet{Type: refmqtt.PUBLISH, QoS: m.Req.QoS, Retain: m.Req.Retain, Topic: m.Req.Topic, ID: m.ID, Payload: m.Req.Payload})
}

func clearDup(raw []byte) []byte {
	b := append([]byte(nil), raw...)
	if len(b) != 0 && b[0]>>4 == refmqtt.PUBLISH {
		b[0] &^= 8
	}
	return b
}

// connInfo summarises one connection from the log.
type connInfo struct {
	N           int
	DialSeq     int
	ConnackRead bool // the client consumed an accepting CONNACK
	ReadySeq    int  // event at which the read routine first waited for input after the handshake (0 = never)
	Packets     []*refmqtt.Packet
	PacketSeq   []int // event number at which each packet was complete
}

func (h *H) connInfos() []*connInfo {
	events := h.Events()
	var list []*connInfo
	byN := map[int]*connInfo{}
	lastDial := 0
	for _, e := range events {
		switch e.Kind {
		case sim.EvDial:
			lastDial = e.Seq
		case sim.EvDialRet:
			if e.Conn != 0 {
				ci := &connInfo{N: e.Conn, DialSeq: lastDial}
				byN[e.Conn] = ci
				list = append(list, ci)
			}
		case sim.EvYield:
			// connect got through handshake and resend on the latest connection
			if e.Str == "connect.release" && len(list) != 0 {
				if ci := list[len(list)-1]; ci.ReadySeq == 0 {
					ci.ReadySeq = e.Seq
				}
			}
		case sim.EvPacket:
			if ci := byN[e.Conn]; ci != nil {
				ci.PacketSeq = append(ci.PacketSeq, e.Seq)
			}
		}
	}
	for _, ci := range list {
		c := h.Conn(ci.N)
		ci.Packets, _, _ = refmqtt.DecodeAll(c.OutCopy())
		h.WithLock(func() {
			ci.ConnackRead = c.State.Accepted && c.InOff >= 4
			if !c.State.Accepted {
				ci.ReadySeq = 0
			}
		})
	}
	return list
}

// checkResend verifies clause (b) of C01 and the order clauses of C05: on
// every connection on which the read routine got through connect, the
// pending transfers were retransmitted first, completely, byte-exact modulo
// DUP, in acceptance order, at the right stage.
func (h *H) checkResend(msgs []*Msg, strictOrder bool) (resent int) {
	// (The client may still be running. The messages are derived from the
	// log anew *after* the connections were: a connection which counts as
	// through its resend must be judged against everything which happened
	// before it, e.g. the Delete behind an acknowledgement.)
	infos := h.connInfos()
	msgs = h.messages()
	for _, ci := range infos {
		if ci.ReadySeq == 0 {
			continue // connect did not complete on this connection
		}
		// what was pending when the connection was dialed
		var want []*Msg
		for _, level := range []byte{1, 2} {
			for _, m := range msgs {
				if m.Req.QoS != level || m.AcceptedSeq == 0 || m.AcceptedSeq > ci.DialSeq {
					continue
				}
				if m.DeleteSeq != 0 && m.DeleteSeq < ci.DialSeq {
					continue
				}
				want = append(want, m)
			}
		}
		// the resend block: packets after CONNECT up to the first which is
		// neither PUBLISH level ≥ 1 nor PUBREL
		var block []*refmqtt.Packet
		for _, p := range ci.Packets[1:] {
			if p.Type == refmqtt.PUBREL || p.Type == refmqtt.PUBLISH && p.QoS != 0 {
				block = append(block, p)
				continue
			}
			break
		}
		if strictOrder {
			// Retransmissions (records saved before the dial) come first,
			// ascending per level, at-least-once before exactly-once;
			// nothing newly submitted may precede one of them.
			byID := map[uint16]*Msg{}
			for _, m := range msgs {
				byID[m.ID] = m
			}
			// Everything accepted before connect locked the sequences is
			// part of the resend, so a packet may precede a retransmission
			// only if it is of a lower level or of the same level with an
			// earlier identifier.
			seenID := map[uint16]bool{}
			for i, p := range block {
				m := byID[p.ID]
				if m == nil || seenID[p.ID] {
					continue // unknown, or a repeat (a PUBREL may be repeated by the read routine)
				}
				seenID[p.ID] = true
				isResend := m.SaveSeq < ci.DialSeq
				if p.Type == refmqtt.PUBREL {
					isResend = m.RelSaveSeq != 0 && m.RelSaveSeq < ci.DialSeq
				}
				if !isResend {
					continue
				}
				for _, q := range block[:i] {
					switch {
					case q.ID&0xc000 == 0xc000 && p.ID&0xc000 == 0x8000:
						h.Failf("conn %d: at-least-once retransmission %s comes after exactly-once %s", ci.N, p, q)
					case q.ID&0xc000 == p.ID&0xc000 && (p.ID-q.ID)&0x3fff > 0x2000:
						h.Failf("conn %d: retransmission %s comes after %s, which was accepted later", ci.N, p, q)
					}
				}
			}
		}
		bi := 0
		for _, m := range want {
			stageRel := m.RelSaveSeq != 0 && m.RelSaveSeq < ci.DialSeq
			found := false
			for ; bi < len(block); bi++ {
				p := block[bi]
				if p.ID != m.ID {
					continue
				}
				if stageRel {
					if p.Type != refmqtt.PUBREL {
						h.Failf("conn %d: message %#04x (%q) had its PUBREL recorded before this connection was dialed, yet the connection carries %s", ci.N, m.ID, m.Req.Topic, p)
					}
				} else {
					if p.Type != refmqtt.PUBLISH {
						// PUBREC may have been recorded between dial and resend? No: the read routine dials.
						h.Failf("conn %d: message %#04x (%q) is before PUBREC, yet the connection carries %s", ci.N, m.ID, m.Req.Topic, p)
					}
					if ref := refPublish(m); !bytes.Equal(clearDup(p.Raw), ref) {
						h.Failf("conn %d: retransmission of %#04x (%q) is not byte-exact: got % x want % x", ci.N, m.ID, m.Req.Topic, head(p.Raw, 40), head(ref, 40))
					}
				}
				found = true
				bi++
				break
			}
			if !found {
				h.Failf("conn %d completed its handshake and resend while message %#04x (%q, level %d, accepted at event %d, dial at %d) was unacknowledged, yet the resend block %v does not carry it (in order)",
					ci.N, m.ID, m.Req.Topic, m.Req.QoS, m.AcceptedSeq, ci.DialSeq, block)
			}
			resent++
		}
	}
	return resent
}

// checkLifecycle verifies clauses (a), (c), (d) of C01 for the history so far.
func (h *H) checkLifecycle(msgs []*Msg) {
	for _, m := range msgs {
		if m.Inherited {
			if m.DeleteSeq != 0 && (m.FinalSeq == 0 || m.DeleteSeq < m.FinalSeq) {
				h.Failf("adopted record %#04x (%q) was deleted at event %d, before the broker released the final acknowledgement (event %d)", m.ID, m.Req.Topic, m.DeleteSeq, m.FinalSeq)
			}
			continue
		}
		c := m.Call
		var done bool
		var cerr error
		var startSeq, endSeq int
		var exErrs []error
		var exDone bool
		var exSeq int
		h.WithLock(func() {
			done, cerr, startSeq, endSeq = c.Done, c.Err, c.StartSeq, c.EndSeq
			exErrs, exDone, exSeq = append([]error(nil), c.ExchErrs...), c.ExchDone, c.ExchSeq
		})
		if !done {
			continue
		}
		if cerr != nil {
			// not accepted although saved: allowed only … never: a Save
			// success is the acceptance
			h.Failf("publish to %q returned %v although its record was saved (operation %d)", m.Req.Topic, cerr, m.SaveOp)
		}
		// (a) Save precedes the return, within the call
		if m.SaveSeq < startSeq || m.SaveSeq > endSeq {
			h.Failf("publish to %q: its Save (event %d) is not within the call (%d…%d)", m.Req.Topic, m.SaveSeq, startSeq, endSeq)
		}
		// (c) Delete only after the broker released the final acknowledgement
		if m.DeleteSeq != 0 && (m.FinalSeq == 0 || m.DeleteSeq < m.FinalSeq) {
			h.Failf("record %#04x (%q) was deleted at event %d, before the broker released the final acknowledgement (event %d)", m.ID, m.Req.Topic, m.DeleteSeq, m.FinalSeq)
		}
		if m.RelSaveSeq != 0 && (m.RecSentSeq == 0 || m.RelSaveSeq < m.RecSentSeq) {
			h.Failf("record %#04x (%q) was replaced by PUBREL at event %d, before the broker released PUBREC (event %d)", m.ID, m.Req.Topic, m.RelSaveSeq, m.RecSentSeq)
		}
		if exDone {
			if m.DeleteSeq == 0 || m.DeleteSeq > exSeq {
				h.Failf("exchange of %#04x (%q) closed (observed at event %d) without a preceding successful Delete of its record", m.ID, m.Req.Topic, exSeq)
			}
			if m.FinalSeq == 0 || m.FinalSeq > exSeq {
				h.Failf("exchange of %#04x (%q) closed (observed at event %d) before the broker released the final acknowledgement", m.ID, m.Req.Topic, exSeq)
			}
		}
		// (d) only ErrDown / ErrSubmit class errors on the exchange
		for _, e := range exErrs {
			if !isErr(e, errDown, errSubmit) && !(h.closing && isErr(e, mqtt.ErrClosed)) {
				h.Failf("exchange of %#04x (%q) delivered %v, which is neither ErrDown nor ErrSubmit", m.ID, m.Req.Topic, e)
			}
		}
	}
	// a publish which returned an error must have left nothing behind
	h.WithLock(func() {})
}

// checkDelivered verifies clause (e): the broker got every accepted message;
// exactly-once ones exactly once.
func (h *H) checkDelivered(msgs []*Msg, brokers ...*refmqtt.Broker) {
	count := map[string]int{}
	h.WithLock(func() { // (the broker model is fed by whoever writes to a connection)
		for _, b := range brokers {
			for _, d := range b.Deliveries {
				count[d.Topic]++
			}
		}
	})
	for _, m := range msgs {
		if m.AcceptedSeq == 0 {
			continue
		}
		n := count[m.Req.Topic]
		switch {
		case n == 0:
			h.Failf("accepted message %#04x (%q, level %d) never reached the broker's subscribers", m.ID, m.Req.Topic, m.Req.QoS)
		case n > 1 && m.Req.QoS == 2:
			h.Failf("exactly-once message %#04x (%q) was forwarded to subscribers %d times", m.ID, m.Req.Topic, n)
		}
	}
}

// deliveredTwice tells whether some exactly-once message was forwarded twice (checked at any time).
func (h *H) checkNoDoubleDelivery() {
	count := map[string]int{}
	var bad string
	h.WithLock(func() {
		for _, d := range h.Broker.Deliveries {
			if d.QoS == 2 {
				count[d.Topic]++
				if count[d.Topic] > 1 {
					bad = d.Topic
				}
			}
		}
	})
	if bad != "" {
		h.Failf("exactly-once message %q was forwarded to the broker's subscribers twice", bad)
	}
}

func sortMsgsBySave(l []*Msg) {
	sort.Slice(l, func(i, j int) bool { return l[i].SaveSeq < l[j].SaveSeq })
}

var _ = fmt.Sprintf
