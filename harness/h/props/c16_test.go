package props

import (
	"fmt"
	"os"
	"path/filepath"
	"regexp"
	"sort"
	"strconv"
	"strings"
	"testing"
	"time"

	"github.com/pascaldekloe/mqtt"
	"pgregory.net/rapid"
	"verifh/refmqtt"
	"verifh/sim"
	"verifh/stats"
)

var hexRe = regexp.MustCompile(`0x[0-9a-f]+(–0x[0-9a-f]+)?`)

// warnedKeys extracts the keys (and key ranges) named by AdoptSession warnings.
func warnedKeys(warn []error) (single map[uint]bool, ranges [][2]uint) {
	single = map[uint]bool{}
	for _, w := range warn {
		for _, m := range hexRe.FindAllString(w.Error(), -1) {
			if i := strings.Index(m, "–"); i >= 0 {
				a, _ := strconv.ParseUint(m[2:i], 16, 32)
				b, _ := strconv.ParseUint(m[i+len("–")+2:], 16, 32)
				ranges = append(ranges, [2]uint{uint(a), uint(b)})
				continue
			}
			v, _ := strconv.ParseUint(m[2:], 16, 32)
			single[uint(v)] = true
		}
	}
	return
}

func keyWarned(k uint, single map[uint]bool, ranges [][2]uint) bool {
	if single[k] {
		return true
	}
	for _, r := range ranges {
		a, b := r[0], r[1]
		if a&0xc000 != k&0xc000 {
			continue
		}
		// ranges may wrap modulo 0x4000
		ka, kb, kk := a&0x3fff, b&0x3fff, k&0x3fff
		if ka <= kb && ka <= kk && kk <= kb || ka > kb && (kk >= ka || kk <= kb) {
			return true
		}
	}
	return false
}

type damage struct {
	Key  uint
	Kind string // flip truncate remove
	Pos  int
	Xor  byte
	Len  int
}

func (d damage) String() string {
	switch d.Kind {
	case "flip":
		return fmt.Sprintf("%#x: flip byte %d with %#02x", d.Key, d.Pos, d.Xor)
	case "truncate":
		return fmt.Sprintf("%#x: truncate to %d bytes", d.Key, d.Len)
	}
	if d.Kind == "hollow" {
		return fmt.Sprintf("%#x: replaced by a well-formed record without packet", d.Key)
	}
	return fmt.Sprintf("%#x: remove", d.Key)
}

// C16 — a damaged Persistence never bricks the session: adopt, warn, connect, go on.
func TestC16Damage(t *testing.T) {
	rapid.Check(t, func(rt *rapid.T) {
		cfg := baseConfig()
		// (small limits: the queues are full when the process stops)
		cfg.AtLeastOnceMax = rapid.SampledFrom([]int{16, 16, 2, 3, 4}).Draw(rt, "AtLeastOnceMax")
		cfg.ExactlyOnceMax = rapid.SampledFrom([]int{16, 16, 2, 3, 4}).Draw(rt, "ExactlyOnceMax")
		h0 := runGen0(rt, "C16", cfg, []byte{1, 2}, func(h *H, actions map[string]func(*rapid.T)) {
			// build up pending transfers at both stages
			actions["pub1c"] = actions["pub1"]
			actions["pub2c"] = actions["pub2"]
			// inbound exactly-once traffic leaves markers behind
			actions["brokerSend2"] = func(rt *rapid.T) {
				c := h.Current()
				if c == nil || !c.Accepted() || c.Blackholed() {
					rt.Skip("no accepted connection")
				}
				h.brokerSend(2, rapid.IntRange(0, 20).Draw(rt, "len"))
			}
			rt.Repeat(actions)
		})
		h0.Shutdown(5 * time.Second)
		ops := h0.Store.NOps()
		msgs0 := h0.messages()

		nontrivial := false
		var summary []string
		tries := rapid.IntRange(1, 4).Draw(rt, "stopPoints")
		for try := 0; try < tries; try++ {
			k := rapid.IntRange(2, ops).Draw(rt, "stopPoint")
			pend0 := h0.pendingAt(msgs0, k)
			snapshot := h0.Store.SnapshotAt(k)
			var outKeys []uint
			var markerKeys []uint
			for key := range snapshot {
				if key >= 0x8000 && key <= 0xffff {
					outKeys = append(outKeys, key)
				}
				if key&0x10000 != 0 {
					markerKeys = append(markerKeys, key)
				}
			}
			sort.Slice(outKeys, func(i, j int) bool { return outKeys[i] < outKeys[j] })
			sort.Slice(markerKeys, func(i, j int) bool { return markerKeys[i] < markerKeys[j] })
			// damage set
			var dmg []damage
			damaged := map[uint]string{}
			nd := rapid.IntRange(1, 3).Draw(rt, "damages")
			for i := 0; i < nd && len(outKeys) != 0; i++ {
				key := outKeys[rapid.IntRange(0, len(outKeys)-1).Draw(rt, "target")]
				if damaged[key] != "" {
					continue
				}
				v := snapshot[key]
				// ("hollow": the value is replaced by a well-formed record which
				// holds no packet at all: 12 bytes with a matching checksum)
				d := damage{Key: key, Kind: rapid.SampledFrom([]string{"flip", "flip", "truncate", "remove", "hollow"}).Draw(rt, "kind")}
				switch d.Kind {
				case "flip":
					d.Pos = rapid.IntRange(0, len(v)-1).Draw(rt, "pos")
					d.Xor = byte(rapid.IntRange(1, 255).Draw(rt, "xor"))
				case "truncate":
					d.Len = rapid.SampledFrom([]int{0, 1, 11, 12, len(v) - 1, len(v) / 2}).Draw(rt, "len")
					if d.Len >= len(v) {
						d.Len = len(v) - 1
					}
				}
				damaged[key] = d.Kind
				dmg = append(dmg, d)
			}
			// inbound markers
			markerDamaged := false
			if len(markerKeys) != 0 && rapid.Bool().Draw(rt, "damageMarker") {
				key := markerKeys[rapid.IntRange(0, len(markerKeys)-1).Draw(rt, "markerTarget")]
				v := snapshot[key]
				d := damage{Key: key, Kind: rapid.SampledFrom([]string{"flip", "truncate", "remove"}).Draw(rt, "markerKind")}
				switch d.Kind {
				case "flip":
					d.Pos = rapid.IntRange(0, len(v)-1).Draw(rt, "pos")
					d.Xor = byte(rapid.IntRange(1, 255).Draw(rt, "xor"))
				case "truncate":
					d.Len = rapid.IntRange(0, len(v)-1).Draw(rt, "len")
				}
				dmg = append(dmg, d)
				markerDamaged = true
			}
			// the client-identifier record: F17 (open finding) is excluded by construction
			if rapid.IntRange(0, 9).Draw(rt, "damageClientID") == 0 {
				stats.For("C16").Exclude("F17")
			}
			// stray entries
			stray := map[uint][]byte{}
			for i := 0; i < rapid.IntRange(0, 2).Draw(rt, "strays"); i++ {
				key := uint(rapid.SampledFrom([]int{0x0001, 0x3fff, 0x4001, 0x6005, 0x7fff}).Draw(rt, "strayKey"))
				switch rapid.IntRange(0, 2).Draw(rt, "strayKind") {
				case 0:
					stray[key] = []byte("garbage which is no record at all")
				case 1:
					stray[key] = storedRecord([]byte{0xc0, 0}, 9999) // a well-formed record of another packet type
				case 2:
					stray[key] = []byte{}
				}
			}
			// the Persistence may also refuse to delete what AdoptSession finds unusable
			var adoptFaults []byte
			adoptFailNth := 0
			if rapid.IntRange(0, 7).Draw(rt, "deleteFailsDuringAdoption") == 0 {
				adoptFaults = []byte{'D'}
				adoptFailNth = rapid.IntRange(1, 4).Draw(rt, "whichDelete")
			}
			// stray entries as a directory can hold them (FileSystem behind the
			// double): a second spelling of a record's name, a sub-directory with
			// a name like a key, leftovers of interrupted saves, foreign files
			flavour := ""
			var fsMutate func(dir string)
			var fsStrays []string
			if len(adoptFaults) == 0 && rapid.IntRange(0, 3).Draw(rt, "directoryStrays") == 0 {
				flavour = "filesystem"
				type strayT struct{ kind, name string }
				var list []strayT
				for i, ns := 0, rapid.IntRange(1, 3).Draw(rt, "nDirectoryStrays"); i < ns; i++ {
					kind := rapid.SampledFrom([]string{"uppercase-twin", "directory", "spool-leftover", "foreign-file", "short-name", "long-name", "link-to-directory", "dangling-link"}).Draw(rt, "strayKind")
					name := ""
					switch kind {
					case "uppercase-twin":
						if len(outKeys) == 0 {
							continue
						}
						key := outKeys[rapid.IntRange(0, len(outKeys)-1).Draw(rt, "twinOf")]
						name = strings.ToUpper(fmt.Sprintf("%05x", key))
						if name == fmt.Sprintf("%05x", key) {
							continue // no letters in it
						}
					case "directory":
						name = fmt.Sprintf("%05x", rapid.SampledFrom([]int{0x0abcd, 0x00007, 0x1ffff, 0x0fff0}).Draw(rt, "dirName")) // (not where a publish of this history will store)
					case "link-to-directory", "dangling-link":
						// neither a regular file nor a directory, named like a key
						name = fmt.Sprintf("%05x", rapid.SampledFrom([]int{0x0c0de, 0x0abce, 0x1fffe, 0x0fff1}).Draw(rt, "linkName"))
					case "spool-leftover":
						name = fmt.Sprintf("%05x.spool", rapid.SampledFrom([]int{0x8000, 0xc000, 0x8001, 0x10001}).Draw(rt, "spoolKey"))
					case "foreign-file":
						name = rapid.SampledFrom([]string{"zzzzz", ".keep", "notes.txt", "0x001", "+0001", "0_001"}).Draw(rt, "foreignName")
					case "short-name":
						name = "8000"
					case "long-name":
						name = "008000"
					}
					list = append(list, strayT{kind, name})
					fsStrays = append(fsStrays, kind+":"+name)
				}
				fsMutate = func(dir string) {
					for _, st := range list {
						p := filepath.Join(dir, st.name)
						if _, err := os.Lstat(p); err == nil {
							continue // (a genuine record has this very name)
						}
						if st.kind == "directory" {
							os.Mkdir(p, 0o700)
						} else if st.kind == "link-to-directory" {
							os.Symlink(dir, p)
						} else if st.kind == "dangling-link" {
							os.Symlink(filepath.Join(dir, "no-such-entry"), p)
						} else {
							os.WriteFile(p, []byte("stray entry, not a record"), 0o600)
						}
					}
				}
			}
			// a misconfigured restart first: limits below what is pending make
			// AdoptSession give up (after it cleaned up). What it found and
			// removed must be reported all the same: the next invocation
			// sees a tidy store.
			preLimits := 0
			if len(adoptFaults) == 0 && rapid.IntRange(0, 4).Draw(rt, "misconfiguredRestartFirst") == 0 {
				preLimits = 1
			}
			n, _ := h0.restart(restartOpts{K: k, Late: rapid.Bool().Draw(rt, "late"), Config: cfg, AdoptFailNext: adoptFaults, AdoptFailNth: adoptFailNth, StoreFlavour: flavour, FSMutate: fsMutate, PreAdoptLimits: preLimits, Mutate: func(store map[uint][]byte) {
				for _, d := range dmg {
					v := store[d.Key]
					switch d.Kind {
					case "flip":
						v = append([]byte(nil), v...)
						v[d.Pos] ^= d.Xor
						store[d.Key] = v
					case "truncate":
						store[d.Key] = append([]byte(nil), v[:d.Len]...)
					case "hollow":
						store[d.Key] = storedRecord(nil, 7)
					case "remove":
						delete(store, d.Key)
					}
				}
				for key, v := range stray {
					store[key] = v
				}
			}})
			var ds []string
			for _, d := range dmg {
				ds = append(ds, d.String())
			}
			n.Act("damage %v stray %d directory strays %v", ds, len(stray), fsStrays)
			if len(fsStrays) != 0 {
				ds = append(ds, fsStrays...)
				n.label("stray-directory-entries")
			}
			summary = append(summary, fmt.Sprintf("k=%d pending=%s damage=%v strays=%d", k, describePending(pend0), ds, len(stray)))
			if len(dmg) >= 1 && len(pend0) >= 2 {
				nontrivial = true
			}

			for key, kind := range damaged {
				_, before := snapshot[key&0xc000|(key-1)&0x3fff]
				_, after := snapshot[key&0xc000|(key+1)&0x3fff]
				if before && after && key >= 0x8000 && key <= 0xffff {
					n.label("damage-in-the-middle-of-a-queue:" + map[bool]string{true: "removed", false: "unusable"}[kind == "remove"])
				}
			}
			if n.PreAdoptRan && n.PreAdoptFatal != nil {
				n.label("adoption-after-a-restart-which-failed-on-its-limits")
				if !strings.Contains(n.PreAdoptFatal.Error(), "is less than") {
					n.Failf("AdoptSession with limits of 1 failed on a damaged Persistence for another reason than its limits: %v", n.PreAdoptFatal)
				}
			}
			// 1. neither panic nor fatal
			if n.AdoptPanic != "" {
				n.Failf("AdoptSession panicked on a damaged Persistence (damage %v, failing Persistence operations %q): %s", ds, adoptFaults, n.AdoptPanic)
			}
			if len(adoptFaults) != 0 {
				// (an error of the Persistence itself is not damage: what becomes
				// of the session then is not judged here, a panic is)
				h0.labels["delete-fails-during-adoption"] = true
				// … except for this: one Delete failed once. Whatever else
				// AdoptSession decided to leave out of the session must be gone;
				// a record which stays behind without being part of the session
				// is taken for session content by the next adoption.
				if n.Fatal == nil && n.Client != nil {
					after := n.Store.Content()
					failedDelete := map[uint]bool{}
					for _, op := range n.Store.OpsCopy() {
						if op.Kind == 'D' && op.Err != nil {
							failedDelete[op.Key] = true
						}
					}
					n.Act("appStep")
					n.appStep("first connect of the adopted client")
					if last, ok := n.App.Last(); !(ok && !n.App.InCall() && last.Err != nil) && n.ReaderWaiting() {
						if cs := n.AllConns(); len(cs) == 1 {
							packets, _, _ := refmqtt.DecodeAll(cs[0].OutCopy())
							sent := map[uint]bool{}
							for _, p := range packets {
								if p.Type == refmqtt.PUBLISH || p.Type == refmqtt.PUBREL {
									sent[uint(p.ID)] = true
								}
							}
							for key := range after {
								if key >= 0x8000 && key <= 0xffff && !sent[key] && !failedDelete[key] {
									n.Failf("record %#x stays in the Persistence after AdoptSession (one Delete, of %v, failed), yet the adopted client does not resume it: the next adoption takes it for session content; warnings: %v", key, keysOf(failedDelete), n.Warn)
								}
							}
							n.label("leftovers-judged-after-a-failed-delete")
						}
					}
				}
				n.Shutdown(5 * time.Second)
				continue
			}
			if n.Fatal != nil {
				n.Failf("AdoptSession failed on a damaged Persistence: %v", n.Fatal)
			}
			single, ranges := warnedKeys(n.Warn)
			for key, kind := range damaged {
				if kind != "remove" && !keyWarned(key, single, ranges) {
					n.Failf("record %#x was damaged (%s), yet no AdoptSession warning names it; warnings: %v", key, kind, n.Warn)
				}
			}
			// 3. the first connect succeeds
			n.Act("appStep")
			n.appStep("first connect of the adopted client")
			if last, ok := n.App.Last(); ok && !n.App.InCall() && last.Err != nil {
				n.Failf("after damage %v the first ReadSlices of the adopted client fails in a healthy environment: %v (warnings: %v)", ds, last.Err, n.Warn)
			}
			cs := n.AllConns()
			if len(cs) == 0 {
				n.Failf("the adopted client did not dial")
			}
			packets, rest, err := refmqtt.DecodeAll(cs[0].OutCopy())
			if err != nil || len(rest) != 0 || len(packets) == 0 {
				n.Failf("first connection of the adopted client: malformed or incomplete output (%v)", err)
			}
			// 4. only genuinely saved packets, in original relative order
			sent := map[uint]bool{}
			pi := 0
			for _, p := range packets[1:] {
				if p.Type == refmqtt.PUBACK || p.Type == refmqtt.PUBREC || p.Type == refmqtt.PUBCOMP {
					continue // replies to the broker's retransmissions
				}
				if p.Type != refmqtt.PUBLISH && p.Type != refmqtt.PUBREL {
					n.Failf("unexpected %s on the first connection", p)
				}
				key := uint(p.ID)
				orig, ok := snapshot[key]
				if !ok || damaged[key] != "" {
					n.Failf("the adopted client transmits %s, yet record %#x is %s", p, key, map[bool]string{true: "damaged: " + damaged[key], false: "not in the Persistence"}[ok])
				}
				if string(clearDup(p.Raw)) != string(clearDup(stripTrailer(orig))) {
					n.Failf("the adopted client transmits %s, which differs from the saved record %#x: % x", p, key, head(stripTrailer(orig), 40))
				}
				// order: position within the obliged sequence must ascend
				found := false
				for ; pi < len(pend0); pi++ {
					if uint(pend0[pi].ID) == key {
						found = true
						pi++
						break
					}
				}
				if !found {
					n.Failf("the adopted client transmits %s out of the original order %s", p, describePending(pend0))
				}
				sent[key] = true
			}
			// 2. every record which is not resumed is named by a warning
			for _, key := range outKeys {
				if damaged[key] == "remove" || sent[key] {
					continue
				}
				if !keyWarned(key, single, ranges) {
					n.Failf("record %#x is neither resumed nor named by any warning (abandoned silently); damage %v; warnings: %v", key, ds, n.Warn)
				}
			}
			// 6. new publishes do not collide
			for _, level := range []byte{1, 2} {
				c := n.pub(level, false)
				n.MustPoll("publish on the adopted client returning", func() bool { return n.IsDone(c) })
				if c.Err != nil && !isErr(c.Err, mqtt.ErrMax) {
					n.Failf("publish level %d on the adopted client: %v", level, c.Err)
				}
				for _, m := range n.messages() {
					if m.Call == c && sent[uint(m.ID)] {
						n.Failf("new publish got identifier %#04x, which is in flight", m.ID)
					}
				}
			}
			// 7. the session still receives: whatever the broker has in flight
			// (a retransmission of a message whose marker was damaged
			// included) completes, and a later message arrives
			var later *refmqtt.OutMsg
			if cur := n.Current(); cur != nil && cur.Accepted() {
				later = n.brokerSend(1, 3)
			}
			// 5. drain completes everything resumed
			n.drain(func() bool {
				if !n.allPersistedDone() {
					return false
				}
				inflight := 0
				n.WithLock(func() { inflight = len(n.Broker.Sess.Inflight) })
				if inflight != 0 {
					return false
				}
				content := n.Store.Content()
				for key := range sent {
					if _, ok := content[key]; ok {
						return false
					}
				}
				return true
			})
			n.readOn()
			if later != nil {
				got := false
				for i := 0; i < n.App.NResults(); i++ {
					if r := n.App.Result(i); string(r.Topic) == later.Topic {
						got = true
					}
				}
				if !got {
					n.Failf("after damage %v a message sent later by the broker (%q) never reached the application", ds, later.Topic)
				}
			}
			if markerDamaged {
				n.label("inbound-marker-damaged")
			}
			noPanics(n)
			// 8. not permanently: the session goes on, fills its queues, the
			// process stops again and the next adoption (no new damage) works
			if rapid.Bool().Draw(rt, "secondLife") {
				n.SetAutoAck(false) // (the broker's acknowledgements do not make it before the stop)
				for _, level := range []byte{1, 2} {
					for i := 0; i < 5; i++ {
						c := n.pub(level, false)
						n.MustPoll("publish returning", func() bool { return n.IsDone(c) })
						if c.Err != nil {
							break
						}
					}
				}
				// (some of the new exactly-once transfers get as far as PUBREL)
				if cur := n.Current(); cur != nil && len(cur.Owed()) != 0 {
					n.App.Step()
					for k := rapid.IntRange(0, 4).Draw(rt, "progressBeforeTheStop"); k > 0; k-- {
						released := false
						for i, o := range cur.Owed() {
							if o.Kind == refmqtt.PUBREC {
								n.Act("release %s", o)
								cur.Release(i)
								released = true
								break
							}
						}
						if !released {
							break
						}
						n.settleInbound()
					}
				}
				n.Shutdown(5 * time.Second)
				n2, pend2 := n.restart(restartOpts{K: n.Store.NOps(), Late: true, Config: cfg})
				n2.Act("second life after damage %v", ds)
				leftovers, n1, n2q := 0, 0, 0
				for _, p := range pend2 {
					if p.ID&0x4000 == 0 {
						n1++
					} else {
						n2q++
					}
				}
				// (whatever was resumed has been completed by now: an outbound
				// record of the first life which is still there was abandoned)
				for key, v := range n.Store.Content() {
					if old, ok := snapshot[key]; ok && key >= 0x8000 && key <= 0xffff && string(old) == string(v) {
						leftovers++
					}
				}
				if leftovers > 0 {
					n.label("second-life-with-abandoned-records-left-in-the-store")
					if n1 >= cfg.AtLeastOnceMax || n2q >= cfg.ExactlyOnceMax {
						n.label("second-life-with-abandoned-records-and-a-full-queue")
					}
				}
				if n2.Fatal != nil {
					n2.Failf("the adoption after next (no new damage; earlier damage %v, %d transfers pending) fails: %v", ds, len(pend2), n2.Fatal)
				}
				n2.Act("appStep")
				n2.appStep("first connect of the second life")
				if last, ok := n2.App.Last(); ok && !n2.App.InCall() && last.Err != nil {
					n2.Failf("second life after damage %v: the first ReadSlices fails in a healthy environment: %v (warnings: %v)", ds, last.Err, n2.Warn)
				}
				// what the second process itself had accepted and not completed is resumed by the third
				if cs := n2.AllConns(); len(cs) != 0 {
					ps, _, _ := refmqtt.DecodeAll(cs[0].OutCopy())
					for _, pd := range pend2 {
						if pd.Msg.Inherited {
							continue // (may have been abandoned by the first adoption)
						}
						found := false
						for _, p := range ps {
							if p.ID == pd.ID && (p.Type == refmqtt.PUBREL && pd.StageRel || p.Type == refmqtt.PUBLISH && !pd.StageRel) {
								found = true
							}
						}
						if !found {
							n2.Failf("second life after damage %v: transfer %#04x (%q), accepted by the adopted client and pending at its stop, is not resumed by the next process (warnings: %v)", ds, pd.ID, pd.Req.Topic, n2.Warn)
						}
					}
				}
				n2.drain(func() bool { return n2.allPersistedDone() })
				noPanics(n2)
				n2.Shutdown(5 * time.Second)
				n.label("second-life-after-damage")
			}
			n.Shutdown(5 * time.Second)
			for k := range n.labels {
				h0.labels[k] = true
			}
		}
		h0.Script = append(h0.Script, summary...)
		h0.finish(nontrivial)
	})
}

// TestC16KnownF17 is the dedicated probe of the open finding F17: a damaged
// client-identifier record is not reported by AdoptSession and makes every
// connect fail. It never fails the run; it reports whether F17 still
// reproduces (KNOWN-FINDING line) — see known_findings.json.
func TestC16KnownF17(t *testing.T) {
	reproduced := false
	rapid.Check(t, func(rt *rapid.T) {
		cfg := baseConfig()
		h0 := newH(rt, "C16", sim.Options{Config: cfg})
		h0.Shutdown(5 * time.Second)
		kind := rapid.SampledFrom([]string{"flip", "truncate", "remove"}).Draw(rt, "kind")
		n, _ := h0.restart(restartOpts{K: 2, Config: cfg, Mutate: func(store map[uint][]byte) {
			v := append([]byte(nil), store[0]...)
			switch kind {
			case "flip":
				v[rapid.IntRange(0, len(v)-1).Draw(rt, "pos")] ^= byte(rapid.IntRange(1, 255).Draw(rt, "xor"))
				store[0] = v
			case "truncate":
				store[0] = v[:rapid.IntRange(0, len(v)-1).Draw(rt, "len")]
			case "remove":
				delete(store, 0)
			}
		}})
		defer n.Shutdown(5 * time.Second)
		if n.Fatal != nil {
			return // refusing to adopt is one way to report it
		}
		single, _ := warnedKeys(n.Warn)
		n.App.Step()
		n.SettleReader("first connect with a damaged client identifier")
		last, ok := n.App.Last()
		failed := ok && !n.App.InCall() && last.Err != nil
		// a CONNECT with a damaged identifier would be a violation proper
		for _, c := range n.AllConns() {
			ps, _, _ := refmqtt.DecodeAll(c.OutCopy())
			if len(ps) != 0 && ps[0].Type == refmqtt.CONNECT && ps[0].Connect.ClientID != clientID {
				if ps[0].Connect.ClientID == "" && kind == "remove" && !single[0] {
					// the record is gone and the client silently connects
					// without identifier: the other face of F17
					reproduced = true
					continue
				}
				n.Failf("CONNECT carries the damaged client identifier %q", ps[0].Connect.ClientID)
			}
		}
		if failed && !single[0] {
			reproduced = true
		}
	})
	stats.For("C16").KnownFinding("F17", reproduced)
}

// TestC16KnownF31 is the dedicated probe of the open finding F31: a stray
// sub-directory in a FileSystem Persistence whose name is the file name of a
// record which does not exist yet (the next identifier of a level). List
// skips it and AdoptSession is silent, yet every Save of that key fails
// ("file exists"), the identifier does not advance, and the client refuses
// every publish of that level from then on. It never fails the run; it
// reports whether F31 still reproduces.
func TestC16KnownF31(t *testing.T) {
	reproduced := false
	rapid.Check(t, func(rt *rapid.T) {
		cfg := baseConfig()
		h0 := newH(rt, "C16", sim.Options{Config: cfg, StoreFlavour: "filesystem"})
		h0.Shutdown(5 * time.Second)
		level := byte(rapid.IntRange(1, 2).Draw(rt, "level"))
		key := map[byte]int{1: 0x8000, 2: 0xc000}[level]
		n, _ := h0.restart(restartOpts{K: 2, Config: cfg, StoreFlavour: "filesystem", FSMutate: func(dir string) {
			os.Mkdir(filepath.Join(dir, fmt.Sprintf("%05x", key)), 0o700)
		}})
		defer n.Shutdown(5 * time.Second)
		if n.AdoptPanic != "" {
			n.Failf("AdoptSession panicked with a stray directory %05x: %s", key, n.AdoptPanic)
		}
		if n.Fatal != nil {
			n.Failf("AdoptSession failed with a stray directory %05x: %v", key, n.Fatal)
		}
		n.appStep("first connect of the adopted client")
		c1 := n.pub(level, false)
		c2 := n.pub(level, false)
		n.MustPoll("the publishes returning", func() bool { return n.IsDone(c1) && n.IsDone(c2) })
		if c1.Err != nil && c2.Err != nil {
			reproduced = true
		}
	})
	stats.For("C16").KnownFinding("F31", reproduced)
}

func keysOf(m map[uint]bool) []string {
	var l []string
	for k := range m {
		l = append(l, fmt.Sprintf("%#x", k))
	}
	sort.Strings(l)
	return l
}
