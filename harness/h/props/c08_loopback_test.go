package props

import (
	"bytes"
	"context"
	"errors"
	"fmt"
	"io"
	"net"
	"sync"
	"testing"
	"time"

	"github.com/pascaldekloe/mqtt"
	"pgregory.net/rapid"
	"verifh/refmqtt"
	"verifh/stats"
)

// C08 over real TCP on the loopback interface: the kernel decides where a
// Write is cut (small socket buffers, a peer which pauses reading for longer
// than PauseTimeout), net.Buffers goes through writev, and several goroutines
// submit at once. The oracle is over bytes only, so it holds for whatever
// schedule the kernel and the runtime produce: what the peer received on one
// connection is a concatenation of complete packets which the client was
// asked to send, optionally followed by one incomplete packet.

type loopOp struct {
	Kind string // pub0, pub1, sub, ping
	Size int
	N    int
}

type loopConn struct {
	mu    sync.Mutex
	data  []byte
	clean bool // ended with EOF
	done  chan struct{}
}

func loopPayload(n, size int) []byte {
	b := make([]byte, size)
	for i := range b {
		b[i] = byte(n*31 + i*7 + i>>8)
	}
	return b
}

func TestC08Loopback(t *testing.T) {
	rapid.Check(t, func(rt *rapid.T) {
		pause := 30 * time.Millisecond
		nWorkers := rapid.IntRange(1, 4).Draw(rt, "workers")
		var ops [][]loopOp
		n := 0
		total := 0
		for w := 0; w < nWorkers; w++ {
			var l []loopOp
			for i, k := 0, rapid.IntRange(1, 5).Draw(rt, "ops"); i < k; i++ {
				n++
				op := loopOp{N: n, Kind: rapid.SampledFrom([]string{"pub0", "pub0", "pub1", "pub1", "sub", "ping"}).Draw(rt, "kind")}
				if op.Kind == "pub0" || op.Kind == "pub1" {
					op.Size = rapid.SampledFrom([]int{0, 1, 100, 4000, 70000, 300000}).Draw(rt, "size")
				}
				total += op.Size
				l = append(l, op)
			}
			ops = append(ops, l)
		}
		// the peer's reading schedule per connection: read so many bytes, then pause
		type rstep struct {
			Bytes int
			Pause time.Duration
		}
		var sched []rstep
		for i, k := 0, rapid.IntRange(0, 6).Draw(rt, "readSteps"); i < k; i++ {
			sched = append(sched, rstep{
				Bytes: rapid.SampledFrom([]int{1, 30, 1000, 5000, 40000, 200000}).Draw(rt, "readBytes"),
				Pause: time.Duration(rapid.SampledFrom([]int{0, 5, 20, 45, 80}).Draw(rt, "pauseMs")) * time.Millisecond,
			})
		}
		small := rapid.Bool().Draw(rt, "smallSocketBuffers")
		desc := fmt.Sprintf("workers=%v sched=%v small=%t", ops, sched, small)

		l, err := net.Listen("tcp", "127.0.0.1:0")
		if err != nil {
			rt.Skip("no loopback interface")
		}
		defer l.Close()
		var cmu sync.Mutex
		var conns []*loopConn
		go func() {
			for {
				c, err := l.Accept()
				if err != nil {
					return
				}
				lc := &loopConn{done: make(chan struct{})}
				cmu.Lock()
				first := len(conns) == 0
				conns = append(conns, lc)
				cmu.Unlock()
				if small {
					c.(*net.TCPConn).SetReadBuffer(4096)
				}
				go func() {
					defer close(lc.done)
					defer c.Close()
					buf := make([]byte, 64*1024)
					acked := false
					steps := sched
					if !first {
						steps = nil // later connections are read without pauses
					}
					budget := -1
					for {
						if budget == 0 && len(steps) != 0 {
							time.Sleep(steps[0].Pause)
							steps = steps[1:]
							budget = -1
						}
						if budget < 0 && len(steps) != 0 {
							budget = steps[0].Bytes
						}
						want := len(buf)
						if budget > 0 && budget < want {
							want = budget
						}
						c.SetReadDeadline(time.Now().Add(10 * time.Second))
						k, err := c.Read(buf[:want])
						lc.mu.Lock()
						lc.data = append(lc.data, buf[:k]...)
						have := len(lc.data)
						lc.mu.Unlock()
						if budget > 0 {
							budget -= k
						}
						if !acked && have >= 2 {
							// CONNACK once the CONNECT is in (its length is in byte 1)
							lc.mu.Lock()
							complete := have >= 2+int(lc.data[1])
							lc.mu.Unlock()
							if complete {
								c.Write([]byte{0x20, 2, 0, 0})
								acked = true
							}
						}
						if err != nil {
							lc.mu.Lock()
							lc.clean = errors.Is(err, io.EOF)
							lc.mu.Unlock()
							return
						}
					}
				}()
			}
		}()

		cfg := mqtt.Config{PauseTimeout: pause, AtLeastOnceMax: 64, ExactlyOnceMax: 4}
		d := &net.Dialer{}
		cfg.Dialer = func(ctx context.Context) (net.Conn, error) {
			c, err := d.DialContext(ctx, "tcp", l.Addr().String())
			if err == nil && small {
				c.(*net.TCPConn).SetWriteBuffer(4096)
			}
			return c, err
		}
		client, err := mqtt.VolatileSession("loopback", &cfg)
		if err != nil {
			rt.Fatalf("VERIF-INFRA: %v", err)
		}
		readerDone := make(chan struct{})
		go func() {
			defer close(readerDone)
			for {
				_, _, err := client.ReadSlices()
				if errors.Is(err, mqtt.ErrClosed) {
					return
				}
				if err != nil {
					time.Sleep(2 * time.Millisecond)
				}
			}
		}()
		select {
		case <-client.Online():
		case <-time.After(5 * time.Second):
			client.Close()
			rt.Skip("inconclusive: no connection within 5 s")
		}

		type outcome struct {
			op  loopOp
			err error
			sub error // exchange outcome (first), for pub1
		}
		results := make(chan outcome, n)
		var wg sync.WaitGroup
		for _, l := range ops {
			l := l
			wg.Add(1)
			go func() {
				defer wg.Done()
				for _, op := range l {
					o := outcome{op: op}
					topic := fmt.Sprintf("op/%d", op.N)
					switch op.Kind {
					case "pub0":
						o.err = client.Publish(nil, loopPayload(op.N, op.Size), topic)
					case "pub1":
						var ch <-chan error
						ch, o.err = client.PublishAtLeastOnce(loopPayload(op.N, op.Size), topic)
						if o.err == nil {
							select {
							case e, ok := <-ch:
								if ok {
									o.sub = e
								}
							case <-time.After(150 * time.Millisecond):
							}
						}
					case "sub":
						quit := make(chan struct{})
						time.AfterFunc(100*time.Millisecond, func() { close(quit) })
						o.err = client.Subscribe(quit, topic)
					case "ping":
						quit := make(chan struct{})
						time.AfterFunc(100*time.Millisecond, func() { close(quit) })
						o.err = client.Ping(quit)
					}
					results <- o
				}
			}()
		}
		finished := make(chan struct{})
		go func() { wg.Wait(); close(finished) }()
		select {
		case <-finished:
		case <-time.After(30 * time.Second):
			// (a time budget is no oracle: inconclusive, counted)
			client.Close()
			stats.For("C08").Label("loopback-inconclusive: requests did not return within 30 s", 1)
			rt.Skip("inconclusive: requests did not return within 30 s")
		}
		close(results)
		// let retransmissions settle, then end
		time.Sleep(20 * time.Millisecond)
		client.Close()
		select {
		case <-readerDone:
		case <-time.After(5 * time.Second):
			stats.For("C08").Label("loopback-inconclusive: ReadSlices did not end within 5 s after Close", 1)
			rt.Skip("inconclusive: ReadSlices did not end within 5 s after Close")
		}
		l.Close()
		cmu.Lock()
		all := append([]*loopConn(nil), conns...)
		cmu.Unlock()
		for _, lc := range all {
			select {
			case <-lc.done:
			case <-time.After(12 * time.Second):
				rt.Skip("inconclusive: a peer connection did not end")
			}
		}

		// --- oracle over the received bytes ---
		complete := map[int]bool{} // op.N → a complete packet of it was received
		partial := 0
		for ci, lc := range all {
			ps, rest, err := refmqtt.DecodeAll(lc.data)
			if err != nil {
				violate(rt, "C08", "loopback %s: conn %d received bytes which are no sequence of packets: %v (at offset %d of %d: % x)", desc, ci+1, err, len(lc.data)-len(rest), len(lc.data), head(rest, 24))
			}
			if len(rest) != 0 {
				partial++
			}
			for pi, p := range ps {
				switch p.Type {
				case refmqtt.CONNECT:
					if pi != 0 {
						violate(rt, "C08", "loopback %s: conn %d: CONNECT as packet %d", desc, ci+1, pi)
					}
				case refmqtt.PUBLISH:
					var num int
					if _, err := fmt.Sscanf(p.Topic, "op/%d", &num); err != nil || num < 1 || num > n {
						violate(rt, "C08", "loopback %s: conn %d: PUBLISH to %q was never requested", desc, ci+1, p.Topic)
					}
					var want loopOp
					for _, l := range ops {
						for _, op := range l {
							if op.N == num {
								want = op
							}
						}
					}
					if !bytes.Equal(p.Payload, loopPayload(want.N, want.Size)) {
						violate(rt, "C08", "loopback %s: conn %d: PUBLISH %q arrived with a payload of %d bytes which differs from the %d bytes submitted", desc, ci+1, p.Topic, len(p.Payload), want.Size)
					}
					complete[num] = true
				case refmqtt.SUBSCRIBE:
					var num int
					if len(p.Filters) == 1 {
						fmt.Sscanf(p.Filters[0], "op/%d", &num)
					}
					complete[num] = true
				case refmqtt.PINGREQ, refmqtt.DISCONNECT:
				default:
					violate(rt, "C08", "loopback %s: conn %d: unexpected %s", desc, ci+1, p)
				}
			}
		}
		// success only if the packet went out completely (judged when every
		// connection was read to its EOF: nothing the client wrote got lost)
		allClean := true
		for _, lc := range all {
			if !lc.clean {
				allClean = false
			}
		}
		timeouts := 0
		for o := range results {
			if o.err != nil || o.sub != nil {
				timeouts++
			}
			if !allClean {
				continue
			}
			ok := o.err == nil
			if o.op.Kind == "pub1" {
				ok = ok && o.sub == nil
			}
			if (o.op.Kind == "pub0" || o.op.Kind == "pub1") && ok && !complete[o.op.N] {
				violate(rt, "C08", "loopback %s: %s № %d (%d bytes) reported success, yet no connection received its complete PUBLISH", desc, o.op.Kind, o.op.N, o.op.Size)
			}
		}
		nontrivial := len(all) > 1 || partial > 0 || timeouts > 0
		labels := []string{"loopback-tcp"}
		if len(all) > 1 {
			labels = append(labels, "loopback-reconnected")
		}
		if partial > 0 {
			labels = append(labels, "loopback-connection-ended-inside-a-packet")
		}
		stats.For("C08").Case("loopback "+desc, nontrivial, labels...)
	})
}
