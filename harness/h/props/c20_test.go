package props

// C20 — the mqtttest doubles flag every deviation and mimic the client's
// contract. Pure check: no network simulation, a recording testing.TB plays
// the test which owns the mock.
//
// Decisions where the property text leaves room (documented, never stricter
// than the text):
//   - "filter set": want and got are compared as sets. Lists with a repeated
//     element are not generated, neither in expectations nor in invocations,
//     because the text does not say whether {a,a} equals {a}.
//   - A call with a closed quit returns ErrCanceled. Whether such a call uses
//     up an expectation is not documented, so closed-quit calls are made on a
//     separate instance of the mock (same expectations) where only the return
//     value and the absence of a panic are checked.
//   - Subscribe/Unsubscribe without any filter is outside the alphabet: the
//     client denies it, the doubles treat it as a programming mistake.
//   - "never for a matching one": a call inside the expectation list which
//     matches must not add a failure while it runs. For deviating calls only
//     the verdict at the end of the test (after Cleanup) is checked.
//   - The value returned by a non-matching or surplus call is unspecified.

import (
	"errors"
	"fmt"
	"reflect"
	"regexp"
	"runtime"
	"runtime/debug"
	"sort"
	"strings"
	"sync"
	"testing"
	"time"

	"github.com/pascaldekloe/mqtt"
	"github.com/pascaldekloe/mqtt/mqtttest"
	"pgregory.net/rapid"
	"verifh/stats"
)

// ---- recording testing.TB ----

// recTB is the test the double reports to. The embedded interface is nil: it
// only satisfies the unexported method of testing.TB; every exported method is
// overridden.
type recTB struct {
	testing.TB

	mu       sync.Mutex
	fails    []string // Error, Errorf, Fatal, Fatalf, Fail, FailNow in order
	cleanups []func()
	odd      []string // methods a double has no business calling
	skipped  bool
}

func (r *recTB) fail(s string) {
	r.mu.Lock()
	r.fails = append(r.fails, s)
	r.mu.Unlock()
}

func (r *recTB) failCount() int {
	r.mu.Lock()
	defer r.mu.Unlock()
	return len(r.fails)
}

func (r *recTB) failText() string {
	r.mu.Lock()
	defer r.mu.Unlock()
	if len(r.fails) == 0 {
		return "(none)"
	}
	return strings.Join(r.fails, " | ")
}

func (r *recTB) oddCall(s string) {
	r.mu.Lock()
	r.odd = append(r.odd, s)
	r.mu.Unlock()
}

func (r *recTB) Helper()                     {}
func (r *recTB) Name() string                { return "recTB" }
func (r *recTB) Log(args ...interface{})     {}
func (r *recTB) Logf(string, ...interface{}) {}
func (r *recTB) Error(args ...interface{}) {
	r.fail("Error: " + strings.TrimSuffix(fmt.Sprintln(args...), "\n"))
}
func (r *recTB) Errorf(f string, a ...interface{}) { r.fail("Errorf: " + fmt.Sprintf(f, a...)) }
func (r *recTB) Fail()                             { r.fail("Fail") }
func (r *recTB) Failed() bool                      { return r.failCount() != 0 }
func (r *recTB) FailNow()                          { r.fail("FailNow"); runtime.Goexit() }
func (r *recTB) Fatal(args ...interface{}) {
	r.fail("Fatal: " + strings.TrimSuffix(fmt.Sprintln(args...), "\n"))
	runtime.Goexit()
}
func (r *recTB) Fatalf(f string, a ...interface{}) {
	r.fail("Fatalf: " + fmt.Sprintf(f, a...))
	runtime.Goexit()
}
func (r *recTB) Cleanup(f func()) {
	r.mu.Lock()
	r.cleanups = append(r.cleanups, f)
	r.mu.Unlock()
}
func (r *recTB) Setenv(k, v string)       { r.oddCall("Setenv") }
func (r *recTB) TempDir() string          { r.oddCall("TempDir"); return "" }
func (r *recTB) Skipped() bool            { return r.skipped }
func (r *recTB) Skip(args ...interface{}) { r.oddCall("Skip"); r.skipped = true; runtime.Goexit() }
func (r *recTB) Skipf(f string, a ...interface{}) {
	r.oddCall("Skipf")
	r.skipped = true
	runtime.Goexit()
}
func (r *recTB) SkipNow() { r.oddCall("SkipNow"); r.skipped = true; runtime.Goexit() }

// outcome tells how an isolated invocation ended.
type outcome struct {
	panicked bool
	panicVal interface{}
	stack    string
	exited   bool // runtime.Goexit: FailNow and friends
}

// runIsolated runs f in a goroutine of its own, the way a test function runs:
// FailNow ends that goroutine only, a panic is caught and reported.
func runIsolated(f func()) (o outcome) {
	done := make(chan struct{})
	go func() {
		defer close(done)
		normal := false
		defer func() {
			if normal {
				return
			}
			if v := recover(); v != nil {
				o.panicked, o.panicVal, o.stack = true, v, libFrames(string(debug.Stack()))
			} else {
				o.exited = true
			}
		}()
		f()
		normal = true
	}()
	<-done
	return o
}

var frameRE = regexp.MustCompile(`(?m)^\t\S*/src/(\S+\.go:\d+)`)

// libFrames reduces a stack dump to the file:line positions inside the
// library, which are the same in every run (rapid compares failure texts
// while it shrinks; goroutine numbers and addresses would defeat that).
func libFrames(stack string) string {
	var l []string
	for _, m := range frameRE.FindAllStringSubmatch(stack, -1) {
		if !strings.HasPrefix(m[1], "runtime/") {
			l = append(l, m[1])
		}
	}
	return "\tlibrary frames: " + strings.Join(l, " < ")
}

// runCleanups runs the registered functions last-in first-out, each isolated.
func (r *recTB) runCleanups() (o outcome) {
	for {
		r.mu.Lock()
		n := len(r.cleanups)
		if n == 0 {
			r.mu.Unlock()
			return o
		}
		f := r.cleanups[n-1]
		r.cleanups = r.cleanups[:n-1]
		r.mu.Unlock()
		if oc := runIsolated(f); oc.panicked {
			return oc
		}
	}
}

// infraOdd fails the case as infrastructure trouble when the double used a
// part of testing.TB this recorder does not model.
func infraOdd(rt *rapid.T, tb *recTB) {
	tb.mu.Lock()
	odd := append([]string(nil), tb.odd...)
	tb.mu.Unlock()
	if len(odd) != 0 {
		rt.Fatalf("VERIF-INFRA: C20 recorder: the double called testing.TB methods the recorder does not model: %v", odd)
	}
}

func c20Stats() *stats.Recorder { return stats.For("C20") }

// ---- alphabet ----

var (
	c20ErrA = errors.New("verif: scripted error A")
	c20ErrB = errors.New("verif: scripted error B")
	// results a double can be scripted with
	c20Results     = []error{nil, nil, c20ErrA, c20ErrB, mqtt.ErrMax, mqtt.ErrDown}
	c20ResultNames = map[error]string{nil: "nil", c20ErrA: "errA", c20ErrB: "errB", mqtt.ErrMax: "ErrMax", mqtt.ErrDown: "ErrDown"}

	// messages: nil and empty are the same message; compared by content
	c20Messages = []string{"", "m", "M", "mm", "m\x00"}
	c20Topics   = []string{"t", "T", "t/u", ""}
	c20Filters  = []string{"a", "b/#", "c/+", "d"}
)

func errName(err error) string {
	if err == nil {
		return "nil"
	}
	if reflect.TypeOf(err).Comparable() {
		if n, ok := c20ResultNames[err]; ok {
			return n
		}
	}
	return fmt.Sprintf("%T(%q)", err, err.Error())
}

func drawResult(rt *rapid.T, label string) error {
	return c20Results[rapid.IntRange(0, len(c20Results)-1).Draw(rt, label)]
}

// drawOther returns an element of alphabet different from not.
func drawOther(rt *rapid.T, alphabet []string, not string, label string) string {
	var rest []string
	for _, s := range alphabet {
		if s != not {
			rest = append(rest, s)
		}
	}
	return rapid.SampledFrom(rest).Draw(rt, label)
}

// asMessage makes a fresh byte slice; the empty message is nil or empty.
func asMessage(s string, nilForEmpty bool) []byte {
	if s == "" && nilForEmpty {
		return nil
	}
	return append(make([]byte, 0, len(s)+2), s...)
}

// quitKind: 0 nil, 1 open
func drawOpenQuit(rt *rapid.T) (<-chan struct{}, string) {
	if rapid.Bool().Draw(rt, "quitOpen") {
		return make(chan struct{}), "open"
	}
	return nil, "nil"
}

func closedQuit() <-chan struct{} {
	ch := make(chan struct{})
	close(ch)
	return ch
}

// drawCallCount: exact, one or two more, one or two fewer. The lists are in
// shrink order: exact before more before fewer, one before two.
func drawCallCount(rt *rapid.T, nWant int) int {
	mode := rapid.SampledFrom([]string{"exact", "more", "fewer", "exact", "exact", "more", "fewer"}).Draw(rt, "callCount")
	if mode == "exact" {
		return nWant
	}
	by := rapid.SampledFrom([]int{1, 1, 1, 2}).Draw(rt, "callCountBy")
	if mode == "more" {
		return nWant + by
	}
	if nWant-by < 0 {
		return 0
	}
	return nWant - by
}

func absInt(i int) int {
	if i < 0 {
		return -i
	}
	return i
}

// ---- publish mock ----

type pubExpect struct {
	msg, topic string
	err        error
}

type pubCall struct {
	msg, topic         string
	msgDiff, topicDiff bool
	surplus            bool
	quit               string
	nilMsg             bool
}

func TestC20MockPublish(t *testing.T) {
	rapid.Check(t, func(rt *rapid.T) {
		nWant := rapid.IntRange(0, 4).Draw(rt, "nWant")
		want := make([]pubExpect, nWant)
		for i := range want {
			want[i] = pubExpect{
				msg:   rapid.SampledFrom(c20Messages).Draw(rt, "wantMsg"),
				topic: rapid.SampledFrom(c20Topics).Draw(rt, "wantTopic"),
				err:   drawResult(rt, "wantErr"),
			}
		}
		nCalls := drawCallCount(rt, nWant)
		calls := make([]pubCall, nCalls)
		quits := make([]<-chan struct{}, nCalls)
		diffFields := 0
		for i := range calls {
			c := &calls[i]
			if i < nWant {
				c.msg, c.topic = want[i].msg, want[i].topic
				c.msgDiff = rapid.IntRange(0, 5).Draw(rt, "msgDiffers") == 0
				c.topicDiff = rapid.IntRange(0, 5).Draw(rt, "topicDiffers") == 0
				if c.msgDiff {
					c.msg = drawOther(rt, c20Messages, want[i].msg, "otherMsg")
					diffFields++
				}
				if c.topicDiff {
					c.topic = drawOther(rt, c20Topics, want[i].topic, "otherTopic")
					diffFields++
				}
			} else {
				c.surplus = true
				c.msg = rapid.SampledFrom(c20Messages).Draw(rt, "surplusMsg")
				c.topic = rapid.SampledFrom(c20Topics).Draw(rt, "surplusTopic")
			}
			c.nilMsg = rapid.Bool().Draw(rt, "nilForEmpty")
			quits[i], c.quit = drawOpenQuit(rt)
		}
		probeAfter := rapid.IntRange(0, nWant).Draw(rt, "closedQuitProbeAfter")

		var b strings.Builder
		b.WriteString("NewPublishMock want=[")
		for i, w := range want {
			if i != 0 {
				b.WriteString(" ")
			}
			fmt.Fprintf(&b, "{%q→%q %s}", w.msg, w.topic, errName(w.err))
		}
		b.WriteString("] calls=[")
		for i, c := range calls {
			if i != 0 {
				b.WriteString(" ")
			}
			fmt.Fprintf(&b, "(quit=%s %q→%q)", c.quit, c.msg, c.topic)
		}
		b.WriteString("]")
		desc := b.String()

		nontrivial := (diffFields == 1 && nCalls == nWant) || (diffFields == 0 && absInt(nCalls-nWant) == 1)
		var labels []string
		switch {
		case nCalls < nWant:
			labels = append(labels, "publish-mock:too-few-calls")
		case nCalls > nWant:
			labels = append(labels, "publish-mock:too-many-calls")
		}
		if diffFields != 0 {
			labels = append(labels, fmt.Sprintf("publish-mock:%d-fields-differ", diffFields))
		}
		if diffFields == 0 && nCalls == nWant {
			labels = append(labels, "publish-mock:all-match")
		}
		c20Stats().Case(desc+fmt.Sprintf(" probeAfter=%d", probeAfter), nontrivial, labels...)

		build := func(tb *recTB) func(quit <-chan struct{}, message []byte, topic string) error {
			transfers := make([]mqtttest.Transfer, len(want))
			for i, w := range want {
				transfers[i] = mqtttest.Transfer{Message: asMessage(w.msg, false), Topic: w.topic, Err: w.err}
			}
			var mock func(quit <-chan struct{}, message []byte, topic string) error
			if o := runIsolated(func() { mock = mqtttest.NewPublishMock(tb, transfers...) }); o.panicked || o.exited {
				violate(rt, "C20", "%s: the constructor did not return normally (panic %v)\n%s", desc, o.panicVal, o.stack)
			}
			return mock
		}

		tb := new(recTB)
		mock := build(tb)
		deviation := nCalls != nWant
		for i, c := range calls {
			before := tb.failCount()
			var got error
			o := runIsolated(func() { got = mock(quits[i], asMessage(c.msg, c.nilMsg), c.topic) })
			if o.panicked {
				violate(rt, "C20", "%s: call %d panicked: %v (failures recorded so far: %s)\n%s", desc, i, o.panicVal, tb.failText(), o.stack)
			}
			matching := !c.surplus && !c.msgDiff && !c.topicDiff
			if !matching {
				deviation = true
				continue
			}
			if tb.failCount() != before {
				violate(rt, "C20", "%s: call %d matches its expectation, yet the mock reported: %s", desc, i, tb.failText())
			}
			if got != want[i].err {
				violate(rt, "C20", "%s: matching call %d returned %s, scripted is %s", desc, i, errName(got), errName(want[i].err))
			}
		}
		if o := tb.runCleanups(); o.panicked {
			violate(rt, "C20", "%s: Cleanup panicked: %v\n%s", desc, o.panicVal, o.stack)
		}
		infraOdd(rt, tb)
		if failed := tb.failCount() != 0; failed != deviation {
			if deviation {
				violate(rt, "C20", "%s: the invocations deviate from the expectations (%s), yet the mock reported no failure",
					desc, pubDeviation(want, calls))
			}
			violate(rt, "C20", "%s: every invocation matches and the count is right, yet the mock reported: %s", desc, tb.failText())
		}

		// closed quit, on an instance of its own
		tb2 := new(recTB)
		mock2 := build(tb2)
		for i := 0; i < probeAfter; i++ {
			runIsolated(func() { mock2(nil, asMessage(want[i].msg, false), want[i].topic) })
		}
		var got error
		if o := runIsolated(func() { got = mock2(closedQuit(), []byte("m"), "t") }); o.panicked {
			violate(rt, "C20", "%s: a call with a closed quit after %d matching calls panicked: %v\n%s", desc, probeAfter, o.panicVal, o.stack)
		}
		if !errors.Is(got, mqtt.ErrCanceled) {
			violate(rt, "C20", "%s: a call with a closed quit after %d matching calls returned %s, want ErrCanceled", desc, probeAfter, errName(got))
		}
		tb2.runCleanups()
	})
}

func pubDeviation(want []pubExpect, calls []pubCall) string {
	var parts []string
	for i, c := range calls {
		switch {
		case c.surplus:
			parts = append(parts, fmt.Sprintf("call %d is surplus", i))
		case c.msgDiff && c.topicDiff:
			parts = append(parts, fmt.Sprintf("call %d differs in message and topic", i))
		case c.msgDiff:
			parts = append(parts, fmt.Sprintf("call %d differs in message only", i))
		case c.topicDiff:
			parts = append(parts, fmt.Sprintf("call %d differs in topic only", i))
		}
	}
	if len(calls) < len(want) {
		parts = append(parts, fmt.Sprintf("%d expected calls never made", len(want)-len(calls)))
	}
	return strings.Join(parts, "; ")
}

// ---- subscribe and unsubscribe mocks ----

type subExpect struct {
	topics []string
	err    error
}

type subCall struct {
	filters []string
	how     string // same, missing, repeated, extra, replaced, surplus
	quit    string
}

// drawFilterSet returns n distinct filters in a drawn order.
func drawFilterSet(rt *rapid.T, n int, label string) []string {
	perm := rapid.Permutation(c20Filters).Draw(rt, label)
	return append([]string(nil), perm[:n]...)
}

func permuted(rt *rapid.T, l []string, label string) []string {
	if len(l) < 2 {
		return append([]string(nil), l...)
	}
	return rapid.Permutation(l).Draw(rt, label)
}

func notIn(set []string) (rest []string) {
next:
	for _, f := range c20Filters {
		for _, s := range set {
			if s == f {
				continue next
			}
		}
		rest = append(rest, f)
	}
	return rest
}

func dedupe(l []string) []string {
	seen := map[string]bool{}
	var out []string
	for _, s := range l {
		if !seen[s] {
			seen[s] = true
			out = append(out, s)
		}
	}
	return out
}

func sameSet(a, b []string) bool {
	a, b = dedupe(a), dedupe(b)
	if len(a) != len(b) {
		return false
	}
	x, y := append([]string(nil), a...), append([]string(nil), b...)
	sort.Strings(x)
	sort.Strings(y)
	for i := range x {
		if x[i] != y[i] {
			return false
		}
	}
	return true
}

func TestC20MockSubscribe(t *testing.T) {
	rapid.Check(t, func(rt *rapid.T) {
		name := rapid.SampledFrom([]string{"Subscribe", "Unsubscribe"}).Draw(rt, "mock")
		nWant := rapid.IntRange(0, 4).Draw(rt, "nWant")
		want := make([]subExpect, nWant)
		for i := range want {
			// an empty expectation can only be deviated from; rare
			n := rapid.SampledFrom([]int{1, 1, 2, 2, 2, 3, 3, 4, 0}).Draw(rt, "wantSize")
			want[i] = subExpect{topics: drawFilterSet(rt, n, "wantTopics"), err: drawResult(rt, "wantErr")}
		}
		nCalls := drawCallCount(rt, nWant)
		calls := make([]subCall, nCalls)
		quits := make([]<-chan struct{}, nCalls)
		diffSets := 0
		for i := range calls {
			c := &calls[i]
			quits[i], c.quit = drawOpenQuit(rt)
			if i >= nWant {
				c.how = "surplus"
				c.filters = drawFilterSet(rt, rapid.IntRange(1, 4).Draw(rt, "surplusSize"), "surplusFilters")
				continue
			}
			w := want[i].topics
			hows := []string{"same", "same", "same", "same", "same"}
			if len(w) >= 2 {
				hows = append(hows, "missing", "repeated")
			}
			if len(w) < len(c20Filters) {
				hows = append(hows, "extra")
				if len(w) >= 1 {
					hows = append(hows, "replaced")
				}
			}
			if len(w) == 0 {
				hows = []string{"extra"}
			}
			c.how = rapid.SampledFrom(hows).Draw(rt, "how")
			switch c.how {
			case "same":
				c.filters = permuted(rt, w, "callOrder")
			case "missing":
				drop := rapid.IntRange(0, len(w)-1).Draw(rt, "drop")
				var l []string
				for j, f := range w {
					if j != drop {
						l = append(l, f)
					}
				}
				c.filters = permuted(rt, l, "callOrder")
			case "repeated":
				// a wanted filter given twice in place of another wanted one:
				// same number of arguments, yet a different filter set
				l := append([]string(nil), w...)
				at := rapid.IntRange(0, len(l)-1).Draw(rt, "repeatAt")
				from := rapid.IntRange(0, len(l)-2).Draw(rt, "repeatFrom")
				if from >= at {
					from++
				}
				l[at] = l[from]
				c.filters = permuted(rt, l, "callOrder")
			case "extra":
				l := append(append([]string(nil), w...), rapid.SampledFrom(notIn(w)).Draw(rt, "extraFilter"))
				c.filters = permuted(rt, l, "callOrder")
			case "replaced":
				l := append([]string(nil), w...)
				l[rapid.IntRange(0, len(l)-1).Draw(rt, "replaceAt")] = rapid.SampledFrom(notIn(w)).Draw(rt, "replacement")
				c.filters = permuted(rt, l, "callOrder")
			}
			if c.how != "same" {
				diffSets++
			}
			// the generator's own claim, verified independently of how
			if (c.how == "same") != sameSet(c.filters, w) {
				rt.Fatalf("VERIF-INFRA: C20 generator: how=%s filters=%q want=%q", c.how, c.filters, w)
			}
			if len(c.filters) == 0 {
				rt.Fatalf("VERIF-INFRA: C20 generator: empty invocation")
			}
		}
		probeAfter := rapid.IntRange(0, nWant).Draw(rt, "closedQuitProbeAfter")

		var b strings.Builder
		fmt.Fprintf(&b, "New%sMock want=[", name)
		for i, w := range want {
			if i != 0 {
				b.WriteString(" ")
			}
			fmt.Fprintf(&b, "{%q %s}", w.topics, errName(w.err))
		}
		b.WriteString("] calls=[")
		for i, c := range calls {
			if i != 0 {
				b.WriteString(" ")
			}
			fmt.Fprintf(&b, "(quit=%s %q %s)", c.quit, c.filters, c.how)
		}
		b.WriteString("]")
		desc := b.String()

		nontrivial := (diffSets == 1 && nCalls == nWant) || (diffSets == 0 && absInt(nCalls-nWant) == 1)
		var labels []string
		switch {
		case nCalls < nWant:
			labels = append(labels, "subscribe-mock:too-few-calls")
		case nCalls > nWant:
			labels = append(labels, "subscribe-mock:too-many-calls")
		}
		for _, c := range calls {
			if c.how != "same" && c.how != "surplus" {
				labels = append(labels, "subscribe-mock:filter-"+c.how)
			}
		}
		if diffSets == 0 && nCalls == nWant {
			labels = append(labels, "subscribe-mock:all-match")
		}
		c20Stats().Case(desc+fmt.Sprintf(" probeAfter=%d", probeAfter), nontrivial, labels...)

		build := func(tb *recTB) func(quit <-chan struct{}, topicFilters ...string) error {
			filters := make([]mqtttest.Filter, len(want))
			for i, w := range want {
				filters[i] = mqtttest.Filter{Topics: append([]string(nil), w.topics...), Err: w.err}
			}
			var mock func(quit <-chan struct{}, topicFilters ...string) error
			o := runIsolated(func() {
				if name == "Subscribe" {
					mock = mqtttest.NewSubscribeMock(tb, filters...)
				} else {
					mock = mqtttest.NewUnsubscribeMock(tb, filters...)
				}
			})
			if o.panicked || o.exited {
				violate(rt, "C20", "%s: the constructor did not return normally (panic %v)\n%s", desc, o.panicVal, o.stack)
			}
			return mock
		}

		tb := new(recTB)
		mock := build(tb)
		deviation := nCalls != nWant
		var why []string
		for i, c := range calls {
			before := tb.failCount()
			var got error
			o := runIsolated(func() { got = mock(quits[i], append([]string(nil), c.filters...)...) })
			if o.panicked {
				violate(rt, "C20", "%s: call %d panicked: %v (failures recorded so far: %s)\n%s", desc, i, o.panicVal, tb.failText(), o.stack)
			}
			if c.how != "same" {
				deviation = true
				why = append(why, fmt.Sprintf("call %d: %s", i, c.how))
				continue
			}
			if tb.failCount() != before {
				violate(rt, "C20", "%s: call %d has the expected filter set, yet the mock reported: %s", desc, i, tb.failText())
			}
			if got != want[i].err {
				violate(rt, "C20", "%s: matching call %d returned %s, scripted is %s", desc, i, errName(got), errName(want[i].err))
			}
		}
		if o := tb.runCleanups(); o.panicked {
			violate(rt, "C20", "%s: Cleanup panicked: %v\n%s", desc, o.panicVal, o.stack)
		}
		infraOdd(rt, tb)
		if failed := tb.failCount() != 0; failed != deviation {
			if deviation {
				if nCalls < nWant {
					why = append(why, fmt.Sprintf("%d expected calls never made", nWant-nCalls))
				}
				violate(rt, "C20", "%s: the invocations deviate from the expectations (%s), yet the mock reported no failure",
					desc, strings.Join(why, "; "))
			}
			violate(rt, "C20", "%s: every invocation matches and the count is right, yet the mock reported: %s", desc, tb.failText())
		}

		// closed quit, on an instance of its own
		tb2 := new(recTB)
		mock2 := build(tb2)
		for i := 0; i < probeAfter; i++ {
			if len(want[i].topics) == 0 {
				break
			}
			runIsolated(func() { mock2(nil, want[i].topics...) })
		}
		var got error
		if o := runIsolated(func() { got = mock2(closedQuit(), "a") }); o.panicked {
			violate(rt, "C20", "%s: a call with a closed quit (after up to %d matching calls) panicked: %v\n%s", desc, probeAfter, o.panicVal, o.stack)
		}
		if !errors.Is(got, mqtt.ErrCanceled) {
			violate(rt, "C20", "%s: a call with a closed quit (after up to %d matching calls) returned %s, want ErrCanceled", desc, probeAfter, errName(got))
		}
		tb2.runCleanups()
	})
}

// ---- ReadSlices mock ----

func TestC20MockReadSlices(t *testing.T) {
	rapid.Check(t, func(rt *rapid.T) {
		nWant := rapid.IntRange(0, 4).Draw(rt, "nWant")
		want := make([]pubExpect, nWant)
		for i := range want {
			want[i] = pubExpect{
				msg:   rapid.SampledFrom(c20Messages).Draw(rt, "wantMsg"),
				topic: rapid.SampledFrom(c20Topics).Draw(rt, "wantTopic"),
				err:   drawResult(rt, "wantErr"),
			}
		}
		// expectations may share one backing array, as a test which reuses a
		// payload variable would
		shared := rapid.Bool().Draw(rt, "sharedBacking")
		nCalls := drawCallCount(rt, nWant)

		desc := fmt.Sprintf("NewReadSlicesMock want=%s sharedBacking=%t calls=%d", renderExpect(want), shared, nCalls)
		var labels []string
		switch {
		case nCalls < nWant:
			labels = append(labels, "readslices-mock:too-few-calls")
		case nCalls > nWant:
			labels = append(labels, "readslices-mock:too-many-calls")
		default:
			labels = append(labels, "readslices-mock:all-match")
		}
		c20Stats().Case(desc, absInt(nCalls-nWant) == 1, labels...)

		transfers := make([]mqtttest.Transfer, nWant)
		var backing []byte
		for i, w := range want {
			if shared && i > 0 && len(w.msg) <= len(want[0].msg) && strings.HasPrefix(want[0].msg, w.msg) {
				transfers[i] = mqtttest.Transfer{Message: backing[:len(w.msg)], Topic: w.topic, Err: w.err}
				continue
			}
			m := asMessage(w.msg, false)
			if i == 0 {
				backing = m
			}
			transfers[i] = mqtttest.Transfer{Message: m, Topic: w.topic, Err: w.err}
		}

		tb := new(recTB)
		var mock func() (message, topic []byte, err error)
		if o := runIsolated(func() { mock = mqtttest.NewReadSlicesMock(tb, transfers...) }); o.panicked || o.exited {
			violate(rt, "C20", "%s: the constructor did not return normally (panic %v)\n%s", desc, o.panicVal, o.stack)
		}
		for i := 0; i < nCalls; i++ {
			before := tb.failCount()
			var message, topic []byte
			var got error
			o := runIsolated(func() { message, topic, got = mock() })
			if o.panicked {
				violate(rt, "C20", "%s: call %d panicked: %v\n%s", desc, i, o.panicVal, o.stack)
			}
			if i >= nWant {
				continue
			}
			if tb.failCount() != before {
				violate(rt, "C20", "%s: call %d is expected, yet the mock reported: %s", desc, i, tb.failText())
			}
			if string(message) != want[i].msg || string(topic) != want[i].topic || got != want[i].err {
				violate(rt, "C20", "%s: call %d returned (%q, %q, %s)", desc, i, message, topic, errName(got))
			}
			// the caller owns what it got
			scribble(message)
			scribble(topic)
			for j, w := range want {
				if string(transfers[j].Message) != w.msg || transfers[j].Topic != w.topic {
					violate(rt, "C20", "%s: overwriting the slices returned by call %d changed expectation %d to (%q, %q): not a private copy",
						desc, i, j, transfers[j].Message, transfers[j].Topic)
				}
			}
		}
		if o := tb.runCleanups(); o.panicked {
			violate(rt, "C20", "%s: Cleanup panicked: %v\n%s", desc, o.panicVal, o.stack)
		}
		infraOdd(rt, tb)
		deviation := nCalls != nWant
		if failed := tb.failCount() != 0; failed != deviation {
			if deviation {
				violate(rt, "C20", "%s: the number of calls differs from the expectations, yet the mock reported no failure", desc)
			}
			violate(rt, "C20", "%s: the calls are exactly the expected ones, yet the mock reported: %s", desc, tb.failText())
		}
	})
}

func renderExpect(want []pubExpect) string {
	var b strings.Builder
	b.WriteString("[")
	for i, w := range want {
		if i != 0 {
			b.WriteString(" ")
		}
		fmt.Fprintf(&b, "{%q→%q %s}", w.msg, w.topic, errName(w.err))
	}
	b.WriteString("]")
	return b.String()
}

// scribble overwrites every byte including the spare capacity.
func scribble(b []byte) {
	b = b[:cap(b)]
	for i := range b {
		b[i] ^= 0xa5
	}
}

// ---- stubs ----

func TestC20MockStubs(t *testing.T) {
	rapid.Check(t, func(rt *rapid.T) {
		kind := rapid.SampledFrom([]string{"NewPublishStub", "NewSubscribeStub", "NewUnsubscribeStub", "NewReadSlicesStub"}).Draw(rt, "stub")
		fix := drawResult(rt, "fix")
		nCalls := rapid.IntRange(1, 4).Draw(rt, "nCalls")

		if kind == "NewReadSlicesStub" {
			msg := rapid.SampledFrom(c20Messages).Draw(rt, "fixMsg")
			topic := rapid.SampledFrom(c20Topics).Draw(rt, "fixTopic")
			desc := fmt.Sprintf("NewReadSlicesStub fix={%q→%q %s} calls=%d", msg, topic, errName(fix), nCalls)
			c20Stats().Case(desc, false, "stub:readslices")
			fixture := mqtttest.Transfer{Message: asMessage(msg, rapid.Bool().Draw(rt, "nilForEmpty")), Topic: topic, Err: fix}
			var stub func() (message, topic []byte, err error)
			if o := runIsolated(func() { stub = mqtttest.NewReadSlicesStub(fixture) }); o.panicked {
				violate(rt, "C20", "%s: the constructor panicked: %v\n%s", desc, o.panicVal, o.stack)
			}
			for i := 0; i < nCalls; i++ {
				var m, tp []byte
				var got error
				if o := runIsolated(func() { m, tp, got = stub() }); o.panicked {
					violate(rt, "C20", "%s: call %d panicked: %v\n%s", desc, i, o.panicVal, o.stack)
				}
				if string(m) != msg || string(tp) != topic || got != fix {
					violate(rt, "C20", "%s: call %d returned (%q, %q, %s); earlier returns were overwritten by their owner", desc, i, m, tp, errName(got))
				}
				scribble(m)
				scribble(tp)
				if string(fixture.Message) != msg {
					violate(rt, "C20", "%s: overwriting the slices returned by call %d changed the fixture's message to %q: not a private copy", desc, i, fixture.Message)
				}
			}
			return
		}

		type call struct {
			quit   string
			filter []string
			msg    string
			topic  string
		}
		calls := make([]call, nCalls)
		for i := range calls {
			calls[i].quit = rapid.SampledFrom([]string{"nil", "open", "closed"}).Draw(rt, "quit")
			calls[i].filter = drawFilterSet(rt, rapid.IntRange(1, 3).Draw(rt, "nFilters"), "filters")
			calls[i].msg = rapid.SampledFrom(c20Messages).Draw(rt, "msg")
			calls[i].topic = rapid.SampledFrom(c20Topics).Draw(rt, "topic")
		}
		var b strings.Builder
		fmt.Fprintf(&b, "%s fix=%s calls=[", kind, errName(fix))
		for i, c := range calls {
			if i != 0 {
				b.WriteString(" ")
			}
			if kind == "NewPublishStub" {
				fmt.Fprintf(&b, "(quit=%s %q→%q)", c.quit, c.msg, c.topic)
			} else {
				fmt.Fprintf(&b, "(quit=%s %q)", c.quit, c.filter)
			}
		}
		b.WriteString("]")
		desc := b.String()
		c20Stats().Case(desc, false, "stub:"+strings.ToLower(strings.TrimSuffix(strings.TrimPrefix(kind, "New"), "Stub")))

		var pub func(quit <-chan struct{}, message []byte, topic string) error
		var sub func(quit <-chan struct{}, topicFilters ...string) error
		o := runIsolated(func() {
			switch kind {
			case "NewPublishStub":
				pub = mqtttest.NewPublishStub(fix)
			case "NewSubscribeStub":
				sub = mqtttest.NewSubscribeStub(fix)
			default:
				sub = mqtttest.NewUnsubscribeStub(fix)
			}
		})
		if o.panicked {
			violate(rt, "C20", "%s: the constructor panicked: %v\n%s", desc, o.panicVal, o.stack)
		}
		for i, c := range calls {
			var quit <-chan struct{}
			switch c.quit {
			case "open":
				quit = make(chan struct{})
			case "closed":
				quit = closedQuit()
			}
			var got error
			o := runIsolated(func() {
				if pub != nil {
					got = pub(quit, asMessage(c.msg, false), c.topic)
				} else {
					got = sub(quit, c.filter...)
				}
			})
			if o.panicked {
				violate(rt, "C20", "%s: call %d panicked: %v\n%s", desc, i, o.panicVal, o.stack)
			}
			if c.quit == "closed" {
				if !errors.Is(got, mqtt.ErrCanceled) {
					violate(rt, "C20", "%s: call %d has a closed quit and returned %s, want ErrCanceled", desc, i, errName(got))
				}
			} else if got != fix {
				violate(rt, "C20", "%s: call %d returned %s, want the fixed %s", desc, i, errName(got), errName(fix))
			}
		}
	})
}

// ---- exchange stub ----

type exEntry struct {
	kind  string // err, block, closed, closedWrapped, indefinite, nil
	err   error
	delay time.Duration
}

func (e exEntry) String() string {
	switch e.kind {
	case "err":
		return errName(e.err)
	case "block":
		return fmt.Sprintf("Block{%s}", e.delay)
	case "closed":
		return "ErrClosed"
	case "closedWrapped":
		return "wrap(ErrClosed)"
	case "indefinite":
		return "Block{}"
	}
	return "nil"
}

var (
	c20WrappedBreak = fmt.Errorf("%w; verif wrap", mqtt.ErrBreak)
	c20ExErrs       = []error{c20ErrA, c20ErrB, mqtt.ErrSubmit, c20WrappedBreak, mqtt.ErrMax}
	c20Delays       = []time.Duration{time.Microsecond, 100 * time.Microsecond, time.Millisecond, 2 * time.Millisecond}
)

func init() {
	c20ResultNames[c20WrappedBreak] = "wrap(ErrBreak)"
	c20ResultNames[mqtt.ErrSubmit] = "ErrSubmit"
}

func (e exEntry) value() error {
	switch e.kind {
	case "err":
		return e.err
	case "block":
		return mqtttest.ExchangeBlock{Delay: e.delay}
	case "closed":
		return mqtt.ErrClosed
	case "closedWrapped":
		// fresh each time; identity is compared on the instance placed in the script
		return fmt.Errorf("%w; verif wrap", mqtt.ErrClosed)
	case "indefinite":
		return mqtttest.ExchangeBlock{}
	}
	return nil
}

// drawLegalBody draws entries which may be followed by anything.
func drawLegalBody(rt *rapid.T, max int) []exEntry {
	n := rapid.IntRange(0, max).Draw(rt, "bodyLen")
	body := make([]exEntry, n)
	for i := range body {
		if rapid.IntRange(0, 3).Draw(rt, "isBlock") == 0 {
			body[i] = exEntry{kind: "block", delay: rapid.SampledFrom(c20Delays).Draw(rt, "delay")}
		} else {
			body[i] = exEntry{kind: "err", err: rapid.SampledFrom(c20ExErrs).Draw(rt, "entryErr")}
		}
	}
	return body
}

func renderScript(errFix error, script []exEntry) string {
	parts := make([]string, len(script))
	for i, e := range script {
		parts[i] = e.String()
	}
	return fmt.Sprintf("NewPublishExchangeStub(errFix=%s, [%s])", errName(errFix), strings.Join(parts, ", "))
}

const (
	c20ArriveTimeout = 10 * time.Second      // a scripted value or the close: delays add up to a few ms
	c20StillOpenWait = 20 * time.Millisecond // nothing may come; nothing is pending either
)

func TestC20ExchangeScript(t *testing.T) {
	rapid.Check(t, func(rt *rapid.T) {
		script := drawLegalBody(rt, 4)
		tail := rapid.SampledFrom([]string{"", "", "closed", "closedWrapped", "indefinite"}).Draw(rt, "tail")
		if tail != "" {
			script = append(script, exEntry{kind: tail})
		}
		var errFix error
		if len(script) == 0 && rapid.Bool().Draw(rt, "errFix") {
			errFix = c20ErrA
		}
		nInvoke := rapid.IntRange(1, 2).Draw(rt, "invocations")
		desc := renderScript(errFix, script)

		label := "exchange:closes"
		if tail != "" {
			label = "exchange:stays-open-" + tail
		}
		if errFix != nil {
			label = "exchange:errFix"
		}
		c20Stats().Case(fmt.Sprintf("%s ×%d", desc, nInvoke), len(script) >= 2, label)

		values := make([]error, len(script))
		var expect []error
		var notBefore []time.Duration // per scripted error: the delays of the blocks in front of it
		var delays time.Duration
		for i, e := range script {
			values[i] = e.value()
			switch e.kind {
			case "block":
				delays += e.delay
			case "indefinite":
			default:
				expect = append(expect, values[i])
				notBefore = append(notBefore, delays)
			}
		}

		var stub func(message []byte, topic string) (<-chan error, error)
		if o := runIsolated(func() { stub = mqtttest.NewPublishExchangeStub(errFix, values...) }); o.panicked {
			violate(rt, "C20", "%s: the constructor rejected a script which is legal by its documentation: panic %v", desc, o.panicVal)
		}

		for inv := 0; inv < nInvoke; inv++ {
			var ch <-chan error
			var err error
			start := time.Now()
			if o := runIsolated(func() { ch, err = stub([]byte("m"), "t") }); o.panicked {
				violate(rt, "C20", "%s: invocation %d panicked: %v\n%s", desc, inv, o.panicVal, o.stack)
			}
			if errFix != nil {
				if err != errFix || ch != nil {
					violate(rt, "C20", "%s: invocation %d returned (channel nil: %t, %s), want (nil, errFix)", desc, inv, ch == nil, errName(err))
				}
				continue
			}
			if err != nil || ch == nil {
				violate(rt, "C20", "%s: invocation %d returned (channel nil: %t, %s), want a channel and no error", desc, inv, ch == nil, errName(err))
			}
			for k, want := range expect {
				select {
				case got, ok := <-ch:
					if !ok {
						violate(rt, "C20", "%s: invocation %d: the channel closed after %d of %d scripted errors", desc, inv, k, len(expect))
					}
					if got != want {
						violate(rt, "C20", "%s: invocation %d: receive %d got %s, scripted is %s", desc, inv, k, exName(got), exName(want))
					}
					// (time.Sleep never returns early and the clock is monotonic: a lower bound is no matter of load)
					if e := time.Since(start); e < notBefore[k] {
						violate(rt, "C20", "%s: invocation %d: scripted error %d (%s) arrived %s after the invocation, yet the blocks scripted in front of it add up to %s",
							desc, inv, k, exName(want), e, notBefore[k])
					}
				case <-time.After(c20ArriveTimeout):
					violate(rt, "C20", "%s: invocation %d: scripted error %d (%s) did not arrive within %s (delays add up to %s)",
						desc, inv, k, exName(want), c20ArriveTimeout, delays)
				}
			}
			if tail == "" {
				select {
				case got, ok := <-ch:
					if ok {
						violate(rt, "C20", "%s: invocation %d: received %s after all %d scripted errors", desc, inv, exName(got), len(expect))
					}
				case <-time.After(c20ArriveTimeout):
					violate(rt, "C20", "%s: invocation %d: the channel did not close within %s after the scripted errors (delays add up to %s)",
						desc, inv, c20ArriveTimeout, delays)
				}
				if e := time.Since(start); e < delays {
					violate(rt, "C20", "%s: invocation %d: the channel closed %s after the invocation, yet the scripted blocks add up to %s", desc, inv, e, delays)
				}
				if len(script) >= 3 && delays != 0 {
					c20Stats().Label("exchange:delays-judged-with-lower-bound", 1)
				}
				continue
			}
			// Must stay open. A correct stub has nothing in flight: a value
			// or close which comes late could only follow a finite delay,
			// and a finite delay is never the last entry here. When the
			// trailing entry is an indefinite block after delays, wait them out first.
			wait := c20StillOpenWait
			if tail == "indefinite" {
				wait += delays
			}
			select {
			case got, ok := <-ch:
				if !ok {
					violate(rt, "C20", "%s: invocation %d: the channel got closed although the script ends in %s", desc, inv, script[len(script)-1])
				}
				violate(rt, "C20", "%s: invocation %d: received %s after all %d scripted errors", desc, inv, exName(got), len(expect))
			case <-time.After(wait):
			}
		}
	})
}

func exName(err error) string {
	if b, ok := err.(mqtttest.ExchangeBlock); ok {
		return fmt.Sprintf("ExchangeBlock{%s}", b.Delay)
	}
	if err != nil && errors.Is(err, mqtt.ErrClosed) {
		if err == mqtt.ErrClosed {
			return "ErrClosed"
		}
		return "wrap(ErrClosed)"
	}
	return errName(err)
}

// TestC20ExchangeRejects: scripts the constructor documents (by its panic
// messages) as illegal are rejected at construction.
func TestC20ExchangeRejects(t *testing.T) {
	rapid.Check(t, func(rt *rapid.T) {
		defect := rapid.SampledFrom([]string{"nil-entry", "after-closed", "after-closedWrapped", "after-indefinite", "errFix-with-script"}).Draw(rt, "defect")
		script := drawLegalBody(rt, 3)
		var errFix error
		switch defect {
		case "nil-entry":
			at := rapid.IntRange(0, len(script)).Draw(rt, "nilAt")
			script = append(script[:at:at], append([]exEntry{{kind: "nil"}}, script[at:]...)...)
		case "after-closed", "after-closedWrapped", "after-indefinite":
			follow := drawLegalBody(rt, 2)
			if len(follow) == 0 {
				follow = []exEntry{{kind: "err", err: c20ErrA}}
			}
			script = append(append(script, exEntry{kind: strings.TrimPrefix(defect, "after-")}), follow...)
		case "errFix-with-script":
			if len(script) == 0 {
				script = []exEntry{{kind: "err", err: c20ErrB}}
			}
			errFix = c20ErrA
		}
		desc := renderScript(errFix, script)
		c20Stats().Case(desc+" must be rejected", len(script) >= 2, "exchange:illegal-"+defect)

		values := make([]error, len(script))
		for i, e := range script {
			values[i] = e.value()
		}
		o := runIsolated(func() { mqtttest.NewPublishExchangeStub(errFix, values...) })
		if !o.panicked {
			violate(rt, "C20", "%s: the script is illegal (%s), yet the constructor accepted it", desc, defect)
		}
	})
}
