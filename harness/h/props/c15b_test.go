package props

import (
	"bytes"
	"encoding/binary"
	"fmt"
	"os"
	"strings"
	"testing"
	"time"

	"pgregory.net/rapid"
	"verifh/refmqtt"
	"verifh/sim"
	"verifh/stats"
)

// C15 (black-box half) — what a live client hands to the user's Persistence
// has the documented layout with strictly increasing sequence numbers; what it
// retransmits equals what it saved; a record altered in one byte is reported
// and never transmitted, adopted or used as client identifier.
func TestC15bStoredValues(t *testing.T) {
	rapid.Check(t, func(rt *rapid.T) {
		prop := "C15"
		if p := os.Getenv("VERIF_PROP"); strings.HasPrefix(p, "C15") {
			prop = p
		}
		cfg := baseConfig()
		h := newH(rt, prop, sim.Options{Config: cfg})
		h.Act("appStep")
		h.appStep("first connect")
		nRecords := 0
		var fc faultCounters
		slow := h.faultActions(rt, &fc)["slowSave"]
		actions := map[string]func(*rapid.T){
			"pub1": func(rt *rapid.T) { h.pub(1, rapid.Bool().Draw(rt, "retain")) },
			"pub2": func(rt *rapid.T) { h.pub(2, rapid.Bool().Draw(rt, "retain")) },
			"releaseAcks": func(rt *rapid.T) {
				c := h.Current()
				if c == nil || len(c.Owed()) == 0 {
					rt.Skip("nothing owed")
				}
				h.App.Step()
				h.releaseAcks(rapid.IntRange(1, 3).Draw(rt, "n"))
			},
			"brokerSend2": func(rt *rapid.T) {
				c := h.Current()
				if c == nil || !c.Accepted() {
					rt.Skip("no connection")
				}
				h.brokerSend(2, rapid.IntRange(0, 30).Draw(rt, "len"))
			},
			"appStep":  func(rt *rapid.T) { h.Act("appStep"); h.appStep("appStep") },
			"slowSave": slow,
			"break": func(rt *rapid.T) {
				c := h.Current()
				if c == nil {
					rt.Skip("no connection")
				}
				h.Act("break")
				c.Break(false)
				h.settleInbound()
			},
			"": func(rt *rapid.T) {
				// layout of every value handed to Save
				// sequence numbers are unique; within each class AdoptSession
				// orders by them, so there they ascend in operation order
				// (two goroutines may reach the store in either order)
				seen := map[uint64]int{}
				lastOf := map[string]uint64{}
				n := 0
				for i, op := range h.Store.OpsCopy() {
					if op.Kind != 'S' {
						continue
					}
					v := op.Val
					if len(v) < 12 {
						h.Failf("store operation %d saves only %d bytes", i, len(v))
					}
					body, seqB, sum := v[:len(v)-12], v[len(v)-12:len(v)-4], v[len(v)-4:]
					if want := be32(ownFNV1a32(v[:len(v)-4])); !bytes.Equal(sum, want) {
						h.Failf("store operation %d (key %#x): the last four bytes % x are not the big-endian FNV-1a % x of what precedes", i, op.Key, sum, want)
					}
					seq := binary.LittleEndian.Uint64(seqB)
					if j, dup := seen[seq]; dup && op.Err == nil {
						h.Failf("store operations %d and %d carry the same storage sequence number %d", j, i, seq)
					}
					seen[seq] = i
					class := ""
					if op.Key >= 0x8000 && op.Key <= 0xffff && len(body) != 0 {
						class = fmt.Sprintf("%d/%#x", body[0]>>4, op.Key&0xc000)
					}
					if class != "" {
						if last, ok := lastOf[class]; ok && seq <= last {
							h.Failf("store operation %d (key %#x): storage sequence number %d does not exceed %d of the previous record of its kind", i, op.Key, seq, last)
						}
						lastOf[class] = seq
					}
					if op.Key == 0 {
						if string(body) != clientID {
							h.Failf("the client-identifier record holds %q", body)
						}
						continue
					}
					p, size, err := refmqtt.Decode(body)
					if err != nil || size != len(body) {
						h.Failf("store operation %d (key %#x): the value is no single well-formed packet followed by the trailer: %v", i, op.Key, err)
					}
					switch {
					case op.Key&0x10000 != 0:
						if p.Type != refmqtt.PUBREC || uint(p.ID)|0x10000 != op.Key {
							h.Failf("store operation %d: marker key %#x holds %s", i, op.Key, p)
						}
					case p.Type == refmqtt.PUBLISH || p.Type == refmqtt.PUBREL:
						if uint(p.ID) != op.Key {
							h.Failf("store operation %d: key %#x holds %s", i, op.Key, p)
						}
					default:
						h.Failf("store operation %d: key %#x holds %s", i, op.Key, p)
					}
					n++
				}
				nRecords = n
				h.checkWire()
				h.checkResend(h.messages(), false) // retransmissions are byte-equal to the saved packets
			},
		}
		rt.Repeat(actions)

		// one record altered in a single byte: reported, never transmitted
		h.Shutdown(5 * time.Second)
		content := h.Store.Content()
		var keys []uint
		for k := range content {
			keys = append(keys, k)
		}
		sortUints(keys)
		nontrivial := nRecords > 0
		if len(keys) > 0 {
			key := keys[rapid.IntRange(0, len(keys)-1).Draw(rt, "damageKey")]
			pos := rapid.IntRange(0, len(content[key])-1).Draw(rt, "damagePos")
			x := byte(rapid.IntRange(1, 255).Draw(rt, "damageXor"))
			// … or the record is cut below the 12-byte minimum (it stays present)
			short := -1
			if rapid.IntRange(0, 2).Draw(rt, "truncateInstead") == 0 {
				short = rapid.IntRange(0, 11).Draw(rt, "shortLen")
				if short > len(content[key]) {
					short = len(content[key])
				}
			}
			orig := append([]byte(nil), content[key]...)
			// (the Persistence may refuse to delete what is found corrupt: reported all the same, never used)
			var adoptFaults []byte
			if rapid.IntRange(0, 3).Draw(rt, "deleteFailsDuringAdoption") == 0 {
				adoptFaults = []byte{'D'}
			}
			// (a restart with limits too low for what is pending comes first, 1 in 4:
			// it gives up, after it removed what it found corrupt; its report counts)
			preLimits := 0
			if len(adoptFaults) == 0 && rapid.IntRange(0, 3).Draw(rt, "misconfiguredRestartFirst") == 0 {
				preLimits = 1
			}
			// (the adopting process may ask for a clean session: the records and
			// the identifier are the stored ones all the same)
			cfgAdopt := cfg
			cfgAdopt.CleanSession = rapid.IntRange(0, 2).Draw(rt, "adoptWithCleanSession") == 0
			n, _ := h.restart(restartOpts{K: h.Store.NOps(), Late: true, Config: cfgAdopt, AdoptFailNext: adoptFaults, PreAdoptLimits: preLimits, Mutate: func(store map[uint][]byte) {
				v := append([]byte{}, store[key]...)
				if short >= 0 {
					store[key] = v[:short]
					return
				}
				v[pos] ^= x
				store[key] = v
			}})
			if short >= 0 {
				n.Act("record %#x cut to %d bytes", key, short)
			} else {
				n.Act("record %#x altered at byte %d with %#02x", key, pos, x)
			}
			damagedPacket := append([]byte(nil), stripTrailer(orig)...)
			if short >= 0 {
				damagedPacket = nil
			} else if pos < len(damagedPacket) {
				damagedPacket[pos] ^= x
			}
			if n.AdoptPanic != "" {
				n.Failf("AdoptSession panicked on a record altered in one byte (failing Persistence operations %q): %s", adoptFaults, n.AdoptPanic)
			}
			if n.Fatal == nil {
				single, ranges := warnedKeys(n.Warn)
				// (the client-identifier record is the open finding F17, judged by C16's probe)
				if key != 0 && !keyWarned(key, single, ranges) {
					n.Failf("record %#x differs from what was saved in one byte, yet AdoptSession reports nothing about it (warnings %v)", key, n.Warn)
				}
				n.App.Step()
				n.SettleReader("first connect of the adopted client")
				noPanics(n)
				// (the client-identifier record is the open finding F17, judged by C16's probe)
				// (… and with a Persistence which refuses the Delete the altered record stays where it is)
				if last, ok := n.App.Last(); key != 0 && len(adoptFaults) == 0 && ok && !n.App.InCall() && last.Err != nil {
					n.Failf("record %#x was altered; it is reported (%v), yet it still takes part in the session: the first ReadSlices of the adopted client fails with %v", key, n.Warn, last.Err)
				}
				for _, c := range n.AllConns() {
					out := c.OutCopy()
					ps, _, _ := refmqtt.DecodeAll(out)
					for _, p := range ps {
						// (the record is still there, altered or cut, not removed: nothing but the saved identifier may be used)
						if p.Type == refmqtt.CONNECT && key == 0 && p.Connect.ClientID != clientID {
							n.Failf("the client-identifier record was damaged, yet a CONNECT goes out, with client identifier %q", p.Connect.ClientID)
						}
						if (p.Type == refmqtt.PUBLISH || p.Type == refmqtt.PUBREL) && uint(p.ID) == key {
							n.Failf("the adopted client transmits %s although record %#x was altered", p, key)
						}
					}
					if key != 0 && len(damagedPacket) > 6 && bytes.Contains(out, damagedPacket) {
						n.Failf("the adopted client transmits the altered bytes of record %#x", key)
					}
				}
			}
			n.Shutdown(5 * time.Second)
			h.Script = append(h.Script, fmt.Sprintf("then record %#x altered at byte %d with %#02x and adopted", key, pos, x))
		}
		stats.For(prop).Case(strings.Join(h.Script, "\n"), nontrivial, "live-client-records")
	})
}

func sortUints(l []uint) {
	for i := 1; i < len(l); i++ {
		for j := i; j > 0 && l[j] < l[j-1]; j-- {
			l[j], l[j-1] = l[j-1], l[j]
		}
	}
}

// A reception marker (the record which tells a retransmitted exactly-once
// PUBLISH from a new one) is damaged while the client runs; then the broker
// retransmits. The damaged record must be reported — ReadSlices returns an
// error which is no BigMessage — and not passed over in silence: taking it
// for absent delivers the message a second time without a trace.
func TestC15MarkerDamagedLive(t *testing.T) {
	rapid.Check(t, func(rt *rapid.T) {
		h := newH(rt, "C15", sim.Options{Config: baseConfig()})
		defer h.Shutdown(5 * time.Second)
		h.appStep("connect")
		m := h.brokerSend(2, rapid.IntRange(0, 30).Draw(rt, "len"))
		if m == nil {
			return
		}
		h.App.Step() // the message
		h.SettleReader("message")
		h.App.Step() // marker saved, PUBREC out; the PUBREL is withheld
		h.SettleReader("PUBREC")
		key := uint(m.ID) | 0x10000
		content := h.Store.Content()
		v, ok := content[key]
		if !ok || len(v) == 0 {
			h.Failf("VERIF-INFRA: no marker record %#x after the PUBREC", key)
		}
		d := append([]byte(nil), v...)
		if rapid.IntRange(0, 3).Draw(rt, "truncate") == 0 {
			d = d[:rapid.IntRange(0, len(d)-1).Draw(rt, "cutTo")]
			h.Act("marker %#x cut from %d to %d bytes", key, len(v), len(d))
		} else {
			pos, x := rapid.IntRange(0, len(d)-1).Draw(rt, "pos"), byte(rapid.IntRange(1, 255).Draw(rt, "xor"))
			d[pos] ^= x
			h.Act("marker %#x altered at byte %d with %#02x", key, pos, x)
		}
		h.Store.Damage(key, d)
		c := h.Current()
		if c == nil || !c.Accepted() {
			return
		}
		before := h.App.NResults()
		var dup []byte
		h.WithLock(func() { dup = h.Broker.PublishBytes(m, c.N) })
		h.Act("the broker retransmits %#04x", m.ID)
		c.Send(dup)
		h.MustPoll("ReadSlices returning on the retransmission", func() bool { return !h.App.InCall() || h.App.NResults() > before })
		noPanics(h)
		r := h.App.Result(before)
		if r.Err == nil || r.Big {
			h.Failf("marker %#x was damaged while the client ran; on the retransmission ReadSlices returned %s: the damage is not reported and the message is delivered a second time", key, r)
		}
		stats.For("C15").Case(strings.Join(h.Script, "\n"), true, "marker-damaged-while-running")
	})
}
