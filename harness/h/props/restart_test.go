package props

import (
	"fmt"
	"sort"
	"strings"
	"time"

	"github.com/pascaldekloe/mqtt"
	"pgregory.net/rapid"
	"verifh/refmqtt"
	"verifh/sim"
)

// storedRecord builds a Persistence value the way the client documents it:
// packet, 8-byte little-endian sequence number, 4-byte big-endian FNV-1a.
func storedRecord(packet []byte, seqNo uint64) []byte {
	v := append(append([]byte(nil), packet...), le64(seqNo)...)
	return append(v, be32(ownFNV1a32(v))...)
}

// Pending describes a transfer the client is obliged to resume after a stop.
type Pending struct {
	*Msg
	StageRel bool
}

// opIndexes returns for every message the operation indexes of its PUBREL
// save and final Delete in the world's store log (-1 = none).
func (h *H) opIndexes(msgs []*Msg) (relOp, delOp map[*Msg]int) {
	relOp, delOp = map[*Msg]int{}, map[*Msg]int{}
	ops := h.Store.OpsCopy()
	for _, m := range msgs {
		relOp[m], delOp[m] = -1, -1
		for i, op := range ops {
			if op.Err != nil || op.Key != uint(m.ID) || i <= m.SaveOp && !m.Inherited {
				continue
			}
			switch {
			case op.Kind == 'S' && relOp[m] < 0 && len(op.Val) > 12 && op.Val[0]>>4 == refmqtt.PUBREL:
				relOp[m] = i
			case op.Kind == 'D' && delOp[m] < 0:
				delOp[m] = i
			}
		}
	}
	return
}

// pendingAt computes, from the history alone, what must be pending when the
// process stops after the first k Persistence operations.
func (h *H) pendingAt(msgs []*Msg, k int) []Pending {
	relOp, delOp := h.opIndexes(msgs)
	var l []Pending
	for _, level := range []byte{1, 2} {
		for _, m := range msgs {
			if m.Req.QoS != level {
				continue
			}
			if !m.Inherited && m.SaveOp >= k {
				continue
			}
			if d := delOp[m]; d >= 0 && d < k {
				continue
			}
			p := Pending{Msg: m, StageRel: m.InheritedRel}
			if r := relOp[m]; r >= 0 && r < k {
				p.StageRel = true
			}
			l = append(l, p)
		}
	}
	return l
}

// restartOpts configure a new generation.
type restartOpts struct {
	K                int  // stop after the first K Persistence operations
	Late             bool // broker state as of the start of operation K (false: as of the end of operation K-1)
	Config           mqtt.Config
	Mutate           func(store map[uint][]byte) // damage (C16)
	NoCheck          bool                        // skip the clean-adoption assertions (C16)
	AdoptFailNext    []byte                      // Persistence operations which fail once during AdoptSession
	PreAdoptLimits   int                         // a first AdoptSession with limits this low (see sim.Options)
	PreAdoptFailLoad int                         // a first AdoptSession whose n-th Load fails (see sim.Options)
	AdoptFailNth     int                         // the AdoptFailNext operations fail at their n-th occurrence
	StoreFlavour     string                      // "" = drawn by newH
	FSMutate         func(dir string)            // stray entries in the directory of a filesystem-flavoured store
}

// restart stops the process of h (which must have been shut down) after K
// operations and adopts the session in a new world.
func (h *H) restart(o restartOpts) (*H, []Pending) {
	ops := h.Store.OpsCopy()
	store := h.Store.SnapshotAt(o.K)
	var snap refmqtt.Snapshot
	switch {
	case o.K >= len(ops):
		h.WithLock(func() { snap = h.Broker.Snapshot() })
	case o.Late && (ops[o.K].Kind == 'S' || ops[o.K].Kind == 'D'):
		snap = ops[o.K].Before
	default:
		// state when the last Save/Delete at or before K-1 completed
		found := false
		for i := o.K - 1; i >= 0; i-- {
			if ops[i].Kind == 'S' || ops[i].Kind == 'D' {
				snap, found = ops[i].After, true
				break
			}
		}
		if !found {
			snap = h.brokerInit // nothing happened yet: the state this generation started with
		}
	}
	msgs := h.messages()
	pend := h.pendingAt(msgs, o.K)
	if o.Mutate != nil {
		o.Mutate(store)
	}
	var deliveries []refmqtt.Delivery
	h.WithLock(func() { deliveries = append(deliveries, h.Broker.Deliveries...) })
	b := refmqtt.NewFromSnapshot(snap, deliveries)

	n := newH(h.rt, h.prop, sim.Options{Config: o.Config, Adopt: true, Store: store, Broker: b, AdoptFailNext: o.AdoptFailNext, StoreFlavour: o.StoreFlavour, FSMutate: o.FSMutate, PreAdoptLimits: o.PreAdoptLimits, PreAdoptFailLoad: o.PreAdoptFailLoad, AdoptFailNth: o.AdoptFailNth})
	n.genBase = append(append([]*sim.World(nil), h.genBase...), h.World)
	n.nTopic = h.nTopic
	n.gen = h.gen + 1
	for _, p := range pend {
		m := *p.Msg
		m.Inherited = true
		m.InheritedRel = p.StageRel
		n.inherited = append(n.inherited, &m)
	}
	n.extraReqs = h.extraReqs
	n.Script = append(append([]string(nil), h.Script...), fmt.Sprintf("--- stop after %d of %d store operations (broker state %s), adopt: %d pending ---", o.K, len(ops), map[bool]string{false: "early", true: "late"}[o.Late], len(pend)))
	for k := range h.labels {
		n.labels[k] = true
	}
	return n, pend
}

// checkAdoption verifies C02 for a freshly adopted generation: no fatal, no
// warnings, and the first connection carries exactly the pending transfers.
func (n *H) checkAdoption(pend []Pending) {
	if n.Fatal != nil {
		n.Failf("AdoptSession failed on a store content which a stop can leave behind: %v", n.Fatal)
	}
	if len(n.Warn) != 0 {
		n.Failf("AdoptSession warns on a store content which a stop can leave behind: %v", n.Warn)
	}
	n.Act("appStep")
	n.appStep("first connect of the adopted client")
	cs := n.AllConns()
	if len(cs) == 0 {
		n.Failf("the adopted client did not dial")
	}
	if last, ok := n.App.Last(); ok && !n.App.InCall() && last.Err != nil {
		n.Failf("first ReadSlices of the adopted client failed in a healthy environment: %v", last.Err)
	}
	packets, rest, err := refmqtt.DecodeAll(cs[0].OutCopy())
	if err != nil || len(rest) != 0 {
		n.Failf("first connection of the adopted client: malformed or incomplete output (%v, %d trailing bytes)", err, len(rest))
	}
	if len(packets) == 0 || packets[0].Type != refmqtt.CONNECT {
		n.Failf("first connection of the adopted client does not start with CONNECT")
	}
	got := packets[1:]
	// (replies to what the broker retransmits of its own traffic are not
	// transfers of the client)
	var outbound []*refmqtt.Packet
	for _, p := range got {
		if p.Type != refmqtt.PUBACK && p.Type != refmqtt.PUBREC && p.Type != refmqtt.PUBCOMP {
			outbound = append(outbound, p)
		}
	}
	got = outbound
	var desc []string
	for _, p := range got {
		desc = append(desc, p.String())
	}
	if len(got) != len(pend) {
		n.Failf("the adopted client resumed %d transfers %v, the history obliges it to exactly %d: %s", len(got), desc, len(pend), describePending(pend))
	}
	for i, p := range pend {
		g := got[i]
		if g.ID != p.ID {
			n.Failf("resumed transfer %d has identifier %#04x, want %#04x (original order); got %v want %s", i, g.ID, p.ID, desc, describePending(pend))
		}
		if p.StageRel {
			if g.Type != refmqtt.PUBREL {
				n.Failf("transfer %#04x (%q) had its PUBREL recorded before the stop, yet the adopted client sends %s", p.ID, p.Req.Topic, g)
			}
			continue
		}
		if g.Type != refmqtt.PUBLISH {
			n.Failf("transfer %#04x (%q) was before PUBREC at the stop, yet the adopted client sends %s", p.ID, p.Req.Topic, g)
		}
		if ref := refPublish(p.Msg); string(clearDup(g.Raw)) != string(ref) {
			n.Failf("resumed PUBLISH %#04x (%q) is not byte-exact modulo DUP: got % x want % x", p.ID, p.Req.Topic, head(g.Raw, 40), head(ref, 40))
		}
	}
}

func describePending(pend []Pending) string {
	var l []string
	for _, p := range pend {
		stage := "PUBLISH"
		if p.StageRel {
			stage = "PUBREL"
		}
		l = append(l, fmt.Sprintf("%s %#04x", stage, p.ID))
	}
	return "[" + strings.Join(l, " ") + "]"
}

// checkContinuation publishes on the adopted client and verifies that the
// identifiers continue the sequence without collision.
func (n *H) checkContinuation(pend []Pending) {
	last := map[byte]int{1: -1, 2: -1}
	for _, p := range pend {
		last[p.Req.QoS] = int(p.ID & 0x3fff)
	}
	for _, level := range []byte{1, 2} {
		c := n.pub(level, false)
		n.MustPoll("publish on the adopted client returning", func() bool { return n.IsDone(c) })
		if c.Err != nil {
			if isErr(c.Err, mqtt.ErrMax) {
				continue
			}
			n.Failf("publish level %d on the adopted client: %v", level, c.Err)
		}
		var id uint16
		for _, m := range n.messages() {
			if m.Call == c {
				id = m.ID
			}
		}
		if l := last[level]; l >= 0 {
			if want := uint16((l+1)&0x3fff) | map[byte]uint16{1: 0x8000, 2: 0xc000}[level]; id != want {
				n.Failf("first level-%d publish on the adopted client got identifier %#04x, the sequence continues with %#04x", level, id, want)
			}
		}
		for _, p := range pend {
			if p.ID == id {
				n.Failf("publish on the adopted client got identifier %#04x, which is still in flight", id)
			}
		}
	}
}

// allMsgs returns the messages of all generations which were accepted (saved)
// before their generation's stop, for the final delivery check.
func deliveredCheck(n *H, accepted []*Msg) {
	var b *refmqtt.Broker = n.Broker
	count := map[string]int{}
	n.WithLock(func() {
		for _, d := range b.Deliveries {
			count[d.Topic]++
		}
	})
	for _, m := range accepted {
		c := count[m.Req.Topic]
		switch {
		case c == 0:
			n.Failf("message %#04x (%q, level %d) was accepted and persisted, yet after all restarts and drain it never reached the broker's subscribers", m.ID, m.Req.Topic, m.Req.QoS)
		case c > 1 && m.Req.QoS == 2:
			n.Failf("exactly-once message %#04x (%q) reached the broker's subscribers %d times across restarts", m.ID, m.Req.Topic, c)
		}
	}
}

// stopPoints selects the stop points of a finished history: all of them when
// few, otherwise a drawn subset which always has the points adjacent to
// PUBREL saves and Deletes.
func stopPoints(rt *rapid.T, h *H, limit int) (points []int, complete bool) {
	ops := h.Store.OpsCopy()
	n := len(ops)
	if n-1 <= limit {
		for k := 2; k <= n; k++ {
			points = append(points, k)
		}
		return points, true
	}
	must := map[int]bool{n: true}
	for i, op := range ops {
		if i < 2 || op.Err != nil {
			continue
		}
		if op.Kind == 'D' || op.Kind == 'S' && len(op.Val) > 12 && op.Val[0]>>4 == refmqtt.PUBREL {
			must[i] = true
			must[i+1] = true
		}
	}
	for k := range must {
		points = append(points, k)
	}
	sort.Ints(points)
	if len(points) > limit {
		points = points[len(points)-limit:]
	}
	for len(points) < limit {
		k := rapid.IntRange(2, n).Draw(rt, "stopPoint")
		if !must[k] {
			must[k] = true
			points = append(points, k)
		}
	}
	sort.Ints(points)
	return points, false
}

// runGen0 runs a first-generation history under the faults of C01 and shuts
// the process down without draining.
func runGen0(rt *rapid.T, prop string, cfg mqtt.Config, levels []byte, steps func(h *H, actions map[string]func(*rapid.T))) *H {
	var h *H
	if rapid.IntRange(0, 3).Draw(rt, "startAtWrap") == 0 {
		h = newWrapH(rt, prop, cfg, levels)
	} else {
		h = newH(rt, prop, sim.Options{Config: cfg})
	}
	var fc faultCounters
	if rapid.IntRange(0, 3).Draw(rt, "connectFirst") != 0 {
		h.Act("appStep")
		h.appStep("first connect")
	}
	actions := h.faultActions(rt, &fc)
	delete(actions, "parkResend")
	delete(actions, "releaseWrite")
	delete(actions, "loseTail")
	for _, l := range levels {
		level := l
		actions[fmt.Sprintf("pub%d", level)] = func(rt *rapid.T) { h.pub(level, rapid.Bool().Draw(rt, "retain")) }
		actions[fmt.Sprintf("pub%db", level)] = actions[fmt.Sprintf("pub%d", level)]
	}
	actions[""] = func(rt *rapid.T) {
		noPanics(h)
		h.checkWire()
		msgs := h.messages()
		h.checkLifecycle(msgs)
		h.checkNoDoubleDelivery()
	}
	steps(h, actions)
	return h
}

var _ = time.Second

// newWrapH starts from a session positioned right before the 14-bit
// identifier wrap: a store which holds one pending PUBLISH per level with
// sequence number 0x3ffd, as a stop of an earlier generation leaves behind
// (reachable by C02 itself), adopted by the client.
func newWrapH(rt *rapid.T, prop string, cfg mqtt.Config, levels []byte) *H {
	store := map[uint][]byte{0: storedRecord([]byte(clientID), 1)}
	var inherited []*Msg
	var reqs []*Req
	pos := uint16(rapid.SampledFrom([]int{0x3ffd, 0x3ffe, 0x3fff}).Draw(rt, "wrapPos"))
	for i, level := range levels {
		req := &Req{Kind: fmt.Sprintf("pub%d", level), Topic: fmt.Sprintf("wrap%d", level), Payload: []byte{byte(level)}, QoS: level, Quit: "nil"}
		id := pos | map[byte]uint16{1: 0x8000, 2: 0xc000}[level]
		m := &Msg{Req: req, ID: id, Inherited: true}
		store[uint(id)] = storedRecord(refPublish(m), uint64(2+i))
		inherited = append(inherited, m)
		reqs = append(reqs, req)
	}
	h := newH(rt, prop, sim.Options{Config: cfg, Adopt: true, Store: store})
	h.inherited = inherited
	h.extraReqs = reqs
	h.label("session-positioned-at-identifier-wrap")
	h.Act("start from a session with pending identifiers at %#04x", pos)
	if h.Fatal != nil || len(h.Warn) != 0 {
		h.Failf("AdoptSession of a session positioned at the identifier wrap: fatal %v, warnings %v", h.Fatal, h.Warn)
	}
	return h
}
