package props

// C19 — FileSystem store: Save and Delete are atomic per key across process
// stops.
//
// A generated operation script is executed by a child process (fschild) on
// mqtt.FileSystem(dir). A dry run under strace yields the system calls of every
// operation; then every one of them is a fault point: the process is killed at
// its entry, and it is made to fail (EIO, ENOSPC). What the directory holds
// afterwards is judged by this process, a fresh reader, through the same
// public API. See checks_conf_c19.py for the stated rule.

import (
	"bufio"
	"bytes"
	"context"
	"encoding/binary"
	"encoding/json"
	"errors"
	"fmt"
	"hash/fnv"
	"net"
	"os"
	"os/exec"
	"path/filepath"
	"regexp"
	"runtime"
	"sort"
	"strconv"
	"strings"
	"sync"
	"sync/atomic"
	"syscall"
	"testing"
	"time"

	"github.com/pascaldekloe/mqtt"
	"pgregory.net/rapid"
	"verifh/stats"
)

// ---- twins of the fschild types ----

type fsOp struct {
	Op    string `json:"op"` // save delete load list
	Key   uint   `json:"key"`
	Ver   uint32 `json:"ver,omitempty"`
	Parts []int  `json:"parts,omitempty"`
}

func (o fsOp) size() (n int) {
	for _, p := range o.Parts {
		n += p
	}
	return n
}

func (o fsOp) String() string {
	switch o.Op {
	case "save":
		return fmt.Sprintf("save key=%#05x ver=%d size=%d parts=%v", o.Key, o.Ver, o.size(), o.Parts)
	case "list":
		return "list"
	}
	return fmt.Sprintf("%s key=%#05x", o.Op, o.Key)
}

type fsScript struct {
	Dir           string   `json:"dir"`
	Ops           []fsOp   `json:"ops"`
	LimitSet      bool     `json:"limit_set"`
	LimitAt       int      `json:"limit_at"`
	Limit         int64    `json:"limit"`
	IgnoreSIGXFSZ bool     `json:"ignore_sigxfsz"`
	Routines      [][]fsOp `json:"routines,omitempty"`
	Stable        []uint   `json:"stable,omitempty"`
	Universe      []uint   `json:"universe,omitempty"`
}

type fsResult struct {
	Err  string `json:"err,omitempty"`
	Nil  bool   `json:"nil,omitempty"`
	Len  int    `json:"len,omitempty"`
	Sum  uint64 `json:"sum,omitempty"`
	Head string `json:"head,omitempty"`
	Keys []uint `json:"keys,omitempty"`
}

type fsOutput struct {
	Results  []fsResult     `json:"results,omitempty"`
	Problems []string       `json:"problems,omitempty"`
	Counts   map[string]int `json:"counts,omitempty"`
}

// c19Value is the twin of fschild's Value.
func c19Value(key uint, ver uint32, n int) []byte {
	b := make([]byte, n)
	binary.BigEndian.PutUint32(b[0:], uint32(key))
	binary.BigEndian.PutUint32(b[4:], ver)
	binary.BigEndian.PutUint32(b[8:], uint32(n))
	x := uint64(key)<<40 ^ uint64(ver)<<20 ^ uint64(n) ^ 0x9e3779b97f4a7c15
	if x == 0 {
		x = 1
	}
	for i := 12; i < n; {
		x ^= x << 13
		x ^= x >> 7
		x ^= x << 17
		for y := x; y != 0 && i < n; y >>= 8 {
			b[i] = byte(y)
			i++
		}
	}
	return b
}

func fnvSum(b []byte) uint64 {
	h := fnv.New64a()
	h.Write(b)
	return h.Sum64()
}

// ---- environment ----

type fsInfra struct{ msg string }

func (e *fsInfra) Error() string { return e.msg }

func infraf(format string, args ...interface{}) error {
	return &fsInfra{fmt.Sprintf(format, args...)}
}

var (
	fsEnvOnce sync.Once
	fsChild   string
	fsStrace  string
	fsEnvErr  error
	fsCaseSeq atomic.Int64
)

func fsEnv() error {
	fsEnvOnce.Do(func() {
		fsChild = os.Getenv("VERIF_BIN_FSCHILD")
		if fsChild == "" {
			fsEnvErr = infraf("VERIF_BIN_FSCHILD is not set; the driver builds ./fschild for properties with children=")
			return
		}
		if _, err := os.Stat(fsChild); err != nil {
			fsEnvErr = infraf("child program: %v", err)
			return
		}
		p, err := exec.LookPath("strace")
		if err != nil {
			fsEnvErr = infraf("strace is not installed: %v", err)
			return
		}
		fsStrace = p
	})
	return fsEnvErr
}

func fsBase(t *testing.T) string {
	if d := os.Getenv("VERIF_SCRATCH"); d != "" {
		d = filepath.Join(d, "c19")
		if err := os.MkdirAll(d, 0o755); err == nil {
			return d
		}
	}
	return t.TempDir()
}

func fsWorkers() int {
	if s := os.Getenv("VERIF_C19_WORKERS"); s != "" {
		if n, err := strconv.Atoi(s); err == nil && n > 0 {
			return n
		}
	}
	n := runtime.NumCPU()
	if n < 2 {
		n = 2
	}
	return n
}

// ---- trace ----

// System calls the Go runtime issues on its own account, at moments which
// differ from run to run. They are no fault points. Everything else which an
// operation issues is one, whatever its name.
var fsNoise = map[string]bool{
	"rt_sigaction": true, "rt_sigprocmask": true, "rt_sigreturn": true, "sigaltstack": true,
	"mmap": true, "munmap": true, "mprotect": true, "madvise": true, "brk": true, "mremap": true,
	"futex": true, "clone": true, "clone3": true, "sched_yield": true, "sched_getaffinity": true,
	"nanosleep": true, "clock_nanosleep": true, "gettid": true, "getpid": true, "tgkill": true, "tkill": true,
	"epoll_pwait": true, "epoll_pwait2": true, "epoll_wait": true, "membarrier": true, "restart_syscall": true,
	"getrandom": true, "timer_settime": true, "timer_create": true, "timer_delete": true, "setitimer": true,
	"clock_gettime": true, "gettimeofday": true, "time": true, "rseq": true, "set_robust_list": true,
	"exit_group": true, "exit": true,
}

type fsEvent struct {
	name     string
	line     string
	op       int // operation the call belongs to
	pos      int // position in fsTrace.all
	injected bool
	unknown  bool // result "?" (the process stopped there)
}

type fsTrace struct {
	all      []string  // names of all system calls of the thread, in order
	events   []fsEvent // the calls inside operations, less noise
	started  bool
	finished bool
	end      string // the +++ line
	opBegan  map[int]bool
	opEnded  map[int]bool
}

var (
	reSyscall = regexp.MustCompile(`^([a-z][a-z0-9_]*)\(`)
	reMark    = regexp.MustCompile(`"/VERIF-C19-MARK/([a-z0-9/]+)"`)
	reFdPath  = regexp.MustCompile(`^[a-z0-9_]+\((\d+)<([^>]*)>`)
	reQuoted  = regexp.MustCompile(`"((?:[^"\\]|\\.)*)"`)
	reResult  = regexp.MustCompile(`\) += (-?\d+|\?)`)
)

func fsParseTrace(path string) (*fsTrace, error) {
	f, err := os.Open(path)
	if err != nil {
		return nil, err
	}
	defer f.Close()
	tr := &fsTrace{opBegan: map[int]bool{}, opEnded: map[int]bool{}}
	cur := -1
	sc := bufio.NewScanner(f)
	sc.Buffer(make([]byte, 1<<16), 1<<22)
	for sc.Scan() {
		line := sc.Text()
		if strings.HasPrefix(line, "+++") {
			tr.end = line
			continue
		}
		m := reSyscall.FindStringSubmatch(line)
		if m == nil {
			continue // signal lines and the like
		}
		name := m[1]
		if mm := reMark.FindStringSubmatch(line); mm != nil {
			switch parts := strings.Split(mm[1], "/"); {
			case mm[1] == "start":
				tr.started = true
			case mm[1] == "finish":
				tr.finished = true
			case len(parts) == 3 && parts[0] == "op":
				n, _ := strconv.Atoi(parts[1])
				if parts[2] == "begin" {
					cur = n
					tr.opBegan[n] = true
				} else {
					cur = -1
					tr.opEnded[n] = true
				}
			}
			continue
		}
		tr.all = append(tr.all, name)
		if cur < 0 || fsNoise[name] {
			continue
		}
		tr.events = append(tr.events, fsEvent{name: name, line: line, op: cur, pos: len(tr.all) - 1,
			injected: strings.Contains(line, "(INJECTED)"), unknown: strings.HasSuffix(strings.TrimSpace(line), "= ?")})
	}
	return tr, sc.Err()
}

// ordinal tells the how-manieth call of its name on the thread the call at pos is.
func (tr *fsTrace) ordinal(name string, pos int) int {
	n := 0
	for i := 0; i <= pos && i < len(tr.all); i++ {
		if tr.all[i] == name {
			n++
		}
	}
	return n
}

// ---- the case ----

type fsVal struct {
	ver uint32
	n   int // 0: absent
}

func (v fsVal) String() string {
	if v.n == 0 {
		return "absent"
	}
	return fmt.Sprintf("version %d (%d bytes)", v.ver, v.n)
}

// fsState maps a key to the values it may hold; no entry means absent.
type fsState map[uint][]fsVal

func (s fsState) get(k uint) []fsVal {
	if v, ok := s[k]; ok {
		return v
	}
	return []fsVal{{}}
}

func (s fsState) clone() fsState {
	c := fsState{}
	for k, v := range s {
		c[k] = append([]fsVal(nil), v...)
	}
	return c
}

func fsUnion(a, b []fsVal) []fsVal {
	out := append([]fsVal(nil), a...)
next:
	for _, v := range b {
		for _, w := range out {
			if v == w {
				continue next
			}
		}
		out = append(out, v)
	}
	return out
}

func fsAllowedText(a []fsVal) string {
	var s []string
	for _, v := range a {
		s = append(s, v.String())
	}
	return strings.Join(s, " or ")
}

type fsCase struct {
	base     string
	keys     []uint
	strays   []string // file names present before the script starts
	ops      []fsOp
	universe []uint
	vals     map[uint]map[uint32][]byte
	sums     map[uint]map[uint32]uint64
	runSeq   atomic.Int64
}

const fsRecoveryVer = 0xfffffff0

func (c *fsCase) prepare() {
	c.vals = map[uint]map[uint32][]byte{}
	c.sums = map[uint]map[uint32]uint64{}
	add := func(k uint, ver uint32, n int) {
		if c.vals[k] == nil {
			c.vals[k] = map[uint32][]byte{}
			c.sums[k] = map[uint32]uint64{}
		}
		b := c19Value(k, ver, n)
		c.vals[k][ver] = b
		c.sums[k][ver] = fnvSum(b)
	}
	seen := map[uint]bool{}
	for _, k := range c.keys {
		seen[k] = true
	}
	for _, op := range c.ops {
		if op.Op == "save" {
			add(op.Key, op.Ver, op.size())
		}
	}
	// keys which foreign names might be taken for
	for _, name := range c.strays {
		name = strings.TrimSuffix(name, ".spool")
		if u, err := strconv.ParseUint(name, 16, 32); err == nil && u <= 0x1ffff {
			seen[uint(u)] = true
		}
	}
	seen[0x00666] = true // never used by anybody
	c.universe = c.universe[:0]
	for k := range seen {
		c.universe = append(c.universe, k)
		add(k, fsRecoveryVer, 40)
	}
	sort.Slice(c.universe, func(i, j int) bool { return c.universe[i] < c.universe[j] })
}

func (c *fsCase) canonical(extra []string) string {
	var b strings.Builder
	fmt.Fprintf(&b, "strays=%q\n", c.strays)
	for i, op := range c.ops {
		fmt.Fprintf(&b, "%d: %s\n", i, op)
	}
	for _, e := range extra {
		b.WriteString(e + "\n")
	}
	return b.String()
}

// describe renders what was loaded in terms of the script.
func (c *fsCase) describe(key uint, got []byte) string {
	switch {
	case got == nil:
		return "nothing (absent)"
	case len(got) == 0:
		return "an empty value"
	}
	for ver, v := range c.vals[key] {
		if bytes.Equal(v, got) {
			return fmt.Sprintf("the complete version %d (%d bytes)", ver, len(v))
		}
	}
	for ver, v := range c.vals[key] {
		if len(got) < len(v) && bytes.HasPrefix(v, got) {
			return fmt.Sprintf("the first %d bytes of version %d (%d bytes), a prefix", len(got), ver, len(v))
		}
	}
	for k, m := range c.vals {
		for ver, v := range m {
			if bytes.Equal(v, got) {
				return fmt.Sprintf("version %d of key %#05x", ver, k)
			}
		}
	}
	return fmt.Sprintf("%d bytes which are no value ever saved (starting % x)", len(got), head(got, 16))
}

func (c *fsCase) matches(key uint, got []byte, allowed []fsVal) bool {
	for _, a := range allowed {
		if a.n == 0 {
			if got == nil {
				return true
			}
			continue
		}
		if got != nil && bytes.Equal(got, c.vals[key][a.ver]) {
			return true
		}
	}
	return false
}

// checkDir judges the directory as a fresh process sees it through the API.
func (c *fsCase) checkDir(dir string, st fsState) string {
	store := mqtt.FileSystem(dir)
	loadable := map[uint]bool{}
	for _, k := range c.universe {
		got, err := store.Load(k)
		if err != nil {
			return fmt.Sprintf("Load(%#05x) in a fresh process fails: %v", k, err)
		}
		if allowed := st.get(k); !c.matches(k, got, allowed) {
			return fmt.Sprintf("Load(%#05x) in a fresh process returns %s; the key must hold %s", k, c.describe(k, got), fsAllowedText(allowed))
		}
		loadable[k] = got != nil
	}
	return c.checkList(store, loadable)
}

func (c *fsCase) checkList(store mqtt.Persistence, loadable map[uint]bool) string {
	keys, err := store.List()
	if err != nil {
		return fmt.Sprintf("List in a fresh process fails: %v", err)
	}
	listed := map[uint]bool{}
	for _, k := range keys {
		if listed[k] {
			return fmt.Sprintf("List reports key %#05x twice (%s)", k, fsKeysText(keys))
		}
		listed[k] = true
		ok, known := loadable[k]
		if !known {
			v, err := store.Load(k)
			ok = err == nil && v != nil
		}
		if !ok {
			return fmt.Sprintf("List reports key %#05x, which Load cannot return (List: %s)", k, fsKeysText(keys))
		}
	}
	for k, ok := range loadable {
		if ok && !listed[k] {
			return fmt.Sprintf("List misses key %#05x, which Load returns (List: %s)", k, fsKeysText(keys))
		}
	}
	return ""
}

func fsKeysText(keys []uint) string {
	keys = append([]uint(nil), keys...)
	sort.Slice(keys, func(i, j int) bool { return keys[i] < keys[j] })
	var s []string
	for _, k := range keys {
		s = append(s, fmt.Sprintf("%#05x", k))
	}
	return "[" + strings.Join(s, " ") + "]"
}

// checkRecovery: whatever the stop left behind (a spool file, say) must not
// get in the way of a fresh process which goes on with the same key.
func (c *fsCase) checkRecovery(dir string, key uint, st fsState) string {
	store := mqtt.FileSystem(dir)
	v := c.vals[key][fsRecoveryVer]
	if err := store.Save(key, net.Buffers{v[:12], v[12:]}); err != nil {
		return fmt.Sprintf("a fresh process cannot Save(%#05x) after the fault: %v", key, err)
	}
	st = st.clone()
	st[key] = []fsVal{{ver: fsRecoveryVer, n: len(v)}}
	if why := c.checkDir(dir, st); why != "" {
		return "after a Save by a fresh process: " + why
	}
	if err := store.Delete(key); err != nil {
		return fmt.Sprintf("a fresh process cannot Delete(%#05x) after the fault: %v", key, err)
	}
	st[key] = []fsVal{{}}
	if why := c.checkDir(dir, st); why != "" {
		return "after a Delete by a fresh process: " + why
	}
	return ""
}

// ---- runs ----

type fsInject struct {
	name    string
	ordinal int
	action  string // signal=SIGKILL | error=EIO | …
}

type fsRun struct {
	kind    string // dry kill error double fsize-kill fsize-error
	point   int    // index in the dry trace's events, -1 if none
	op      int    // the operation the fault sits in, -1 if none
	errno   string
	injects []fsInject
	limitAt int
	limit   int64
	ignore  bool
}

type fsRunResult struct {
	dir     string
	trace   *fsTrace
	out     *fsOutput
	signal  syscall.Signal // the child's fate, if it was signalled
	exit    int
	stderr  string
	cleanup func()
}

func (c *fsCase) exec(r *fsRun, traced bool) (*fsRunResult, error) {
	root := filepath.Join(c.base, fmt.Sprintf("r%d", c.runSeq.Add(1)))
	dir := filepath.Join(root, "d")
	if err := os.MkdirAll(dir, 0o755); err != nil {
		return nil, infraf("%v", err)
	}
	res := &fsRunResult{dir: dir, cleanup: func() { os.RemoveAll(root) }}
	for _, name := range c.strays {
		if err := os.WriteFile(filepath.Join(dir, name), []byte("stray "+name), 0o644); err != nil {
			return res, infraf("%v", err)
		}
	}
	s := fsScript{Dir: dir, Ops: c.ops, LimitSet: strings.HasPrefix(r.kind, "fsize"), LimitAt: r.limitAt, Limit: r.limit, IgnoreSIGXFSZ: r.ignore}
	data, _ := json.Marshal(&s)
	scriptFile := filepath.Join(root, "script.json")
	if err := os.WriteFile(scriptFile, data, 0o644); err != nil {
		return res, infraf("%v", err)
	}
	traceFile := filepath.Join(root, "trace.txt")
	var argv []string
	if traced {
		argv = []string{fsStrace, "-y", "-s", "0", "-o", traceFile}
		for _, in := range r.injects {
			argv = append(argv, "-e", fmt.Sprintf("inject=%s:%s:when=%d", in.name, in.action, in.ordinal))
		}
	}
	argv = append(argv, fsChild, "run", scriptFile)
	ctx, cancel := context.WithTimeout(context.Background(), 120*time.Second)
	defer cancel()
	cmd := exec.CommandContext(ctx, argv[0], argv[1:]...)
	cmd.Env = append(os.Environ(), "GOMAXPROCS=2", "GOTRACEBACK=none")
	var stdout, stderr bytes.Buffer
	cmd.Stdout, cmd.Stderr = &stdout, &stderr
	err := cmd.Run()
	res.stderr = stderr.String()
	if ctx.Err() != nil {
		return res, infraf("child timed out: %s", strings.Join(argv, " "))
	}
	var ee *exec.ExitError
	switch {
	case err == nil:
	case errors.As(err, &ee):
		if ws, ok := ee.Sys().(syscall.WaitStatus); ok && ws.Signaled() {
			res.signal = ws.Signal()
		} else {
			res.exit = ee.ExitCode()
		}
	default:
		return res, infraf("cannot run %s: %v", argv[0], err)
	}
	if strings.Contains(res.stderr, "VERIF-INFRA") || res.exit == 3 {
		return res, infraf("child: %s", strings.TrimSpace(res.stderr))
	}
	if traced {
		tr, err := fsParseTrace(traceFile)
		if err != nil {
			return res, infraf("trace: %v", err)
		}
		res.trace = tr
		if !tr.started {
			return res, infraf("the trace lacks the start marker; strace said: %s", strings.TrimSpace(res.stderr))
		}
	}
	if out := bytes.TrimSpace(stdout.Bytes()); len(out) != 0 {
		var o fsOutput
		if err := json.Unmarshal(out, &o); err != nil {
			return res, infraf("child output: %v: %.200s", err, out)
		}
		res.out = &o
	}
	return res, nil
}

// sameHead tells whether a faulted run did what the dry run did up to and
// including the fault point.
func sameHead(dry, got *fsTrace, point int) string {
	if len(got.events) <= point {
		return fmt.Sprintf("the run has %d calls inside operations, the fault point is number %d", len(got.events), point)
	}
	for i := 0; i <= point; i++ {
		if dry.events[i].name != got.events[i].name || dry.events[i].op != got.events[i].op {
			return fmt.Sprintf("call %d is %s in operation %d, was %s in operation %d in the dry run", i,
				got.events[i].name, got.events[i].op, dry.events[i].name, dry.events[i].op)
		}
	}
	return ""
}

// stateBefore is the model after the first n operations, all successful.
func (c *fsCase) stateBefore(n int) fsState {
	st := fsState{}
	for _, op := range c.ops[:n] {
		c.apply(st, op)
	}
	return st
}

func (c *fsCase) apply(st fsState, op fsOp) {
	switch op.Op {
	case "save":
		st[op.Key] = []fsVal{{ver: op.Ver, n: op.size()}}
	case "delete":
		st[op.Key] = []fsVal{{}}
	}
}

func (c *fsCase) recoveryKey(op int) uint {
	if op >= 0 && c.ops[op].Op != "list" {
		return c.ops[op].Key
	}
	return c.keys[0]
}

// judgeStopped: the process was stopped inside operation op.
func (c *fsCase) judgeStopped(dir string, op int) string {
	st := c.stateBefore(op)
	o := c.ops[op]
	if o.Op == "save" || o.Op == "delete" {
		after := st.clone()
		c.apply(after, o)
		st[o.Key] = fsUnion(st.get(o.Key), after.get(o.Key))
	}
	if why := c.checkDir(dir, st); why != "" {
		return why
	}
	return c.checkRecovery(dir, c.recoveryKey(op), st)
}

// Calls whose failure a Save must not swallow.
var fsSaveCritical = map[string]bool{
	"open": true, "openat": true, "openat2": true, "creat": true,
	"write": true, "pwrite64": true, "writev": true, "pwritev": true, "pwritev2": true,
	"fsync": true, "fdatasync": true, "sync_file_range": true,
	"rename": true, "renameat": true, "renameat2": true, "link": true, "linkat": true,
}

// judgeCompleted: the script ran to its end, with a fault (or none) inside.
// mayFail tells whether operation i had a fault; mustFail whether it is a
// Save which cannot have succeeded.
func (c *fsCase) judgeCompleted(res *fsRunResult, mayFail, mustFail func(i int) string) (why string, infra error) {
	if res.out == nil || len(res.out.Results) != len(c.ops) {
		return "", infraf("the child ended without results (signal %v, exit %d): %s", res.signal, res.exit, strings.TrimSpace(res.stderr))
	}
	st := fsState{}
	for i, op := range c.ops {
		r := res.out.Results[i]
		fault := mayFail(i)
		if r.Err != "" && fault == "" {
			if strings.Contains(r.Err, "no space left") || strings.Contains(r.Err, "too many open files") {
				return "", infraf("operation %d (%s): %s", i, op, r.Err)
			}
			return fmt.Sprintf("operation %d (%s) failed without any fault in it: %s", i, op, r.Err), nil
		}
		switch op.Op {
		case "save":
			if r.Err == "" {
				if must := mustFail(i); must != "" {
					return fmt.Sprintf("operation %d (%s) returned nil although %s", i, op, must), nil
				}
				c.apply(st, op)
			}
			// a failed Save leaves the previous value in place
		case "delete":
			if r.Err == "" {
				c.apply(st, op)
			} else {
				st[op.Key] = fsUnion(st.get(op.Key), []fsVal{{}})
			}
		case "load":
			if r.Err != "" {
				continue
			}
			ok := false
			for _, a := range st.get(op.Key) {
				if a.n == 0 && r.Nil || a.n != 0 && !r.Nil && r.Len == a.n && r.Sum == c.sums[op.Key][a.ver] {
					ok = true
				}
			}
			if !ok {
				got := "nothing (absent)"
				if !r.Nil && r.Len == 0 {
					got = "an empty value"
				} else if !r.Nil {
					got = fmt.Sprintf("%d bytes starting %s", r.Len, r.Head)
				}
				return fmt.Sprintf("operation %d (%s) in the running process returned %s; the key must hold %s%s", i, op, got, fsAllowedText(st.get(op.Key)), fault), nil
			}
		case "list":
			if r.Err != "" {
				continue
			}
			listed := map[uint]bool{}
			for _, k := range r.Keys {
				if listed[k] {
					return fmt.Sprintf("operation %d (list) in the running process reports key %#05x twice: %s%s", i, k, fsKeysText(r.Keys), fault), nil
				}
				listed[k] = true
				present := false
				for _, a := range st.get(k) {
					present = present || a.n != 0
				}
				if !present {
					return fmt.Sprintf("operation %d (list) in the running process reports key %#05x, which holds nothing: %s%s", i, k, fsKeysText(r.Keys), fault), nil
				}
			}
			for k, allowed := range st {
				absent := false
				for _, a := range allowed {
					absent = absent || a.n == 0
				}
				if !absent && !listed[k] {
					return fmt.Sprintf("operation %d (list) in the running process misses key %#05x: %s%s", i, k, fsKeysText(r.Keys), fault), nil
				}
			}
		}
	}
	if why := c.checkDir(res.dir, st); why != "" {
		return why, nil
	}
	return "", nil
}

func (c *fsCase) finalState(res *fsRunResult) fsState {
	st := fsState{}
	for i, op := range c.ops {
		switch {
		case res.out.Results[i].Err == "":
			c.apply(st, op)
		case op.Op == "delete":
			st[op.Key] = fsUnion(st.get(op.Key), []fsVal{{}})
		}
	}
	return st
}

// judgeTrace: flush before visibility, and no data in the key's own file
// before it is complete. Works on the calls of one successful Save.
func (c *fsCase) judgeTrace(dir string, tr *fsTrace) string {
	for i, op := range c.ops {
		if op.Op != "save" {
			continue
		}
		final := filepath.Join(dir, fmt.Sprintf("%05x", op.Key))
		var evs []fsEvent
		for _, e := range tr.events {
			if e.op == i {
				evs = append(evs, e)
			}
		}
		fdPath := func(e fsEvent) string {
			if m := reFdPath.FindStringSubmatch(e.line); m != nil {
				return m[2]
			}
			return ""
		}
		isWrite := func(n string) bool {
			return n == "write" || n == "pwrite64" || n == "writev" || n == "pwritev" || n == "pwritev2" || n == "sendfile" || n == "copy_file_range" || n == "ftruncate"
		}
		rename, src := -1, ""
		for j, e := range evs {
			if e.name == "rename" || e.name == "renameat" || e.name == "renameat2" || e.name == "link" || e.name == "linkat" {
				q := reQuoted.FindAllStringSubmatch(e.line, -1)
				if len(q) >= 2 && q[len(q)-1][1] == final {
					rename, src = j, q[0][1]
				}
			}
		}
		for _, e := range evs {
			if isWrite(e.name) && fdPath(e) == final {
				return fmt.Sprintf("operation %d (%s) writes its data into the file of the key itself (%s); a reader or a stop in between meets an incomplete value", i, op, fsCallText(e, dir))
			}
		}
		if rename < 0 {
			return fmt.Sprintf("operation %d (%s) neither writes to nor renames onto %s; calls: %s", i, op, filepath.Base(final), fsCallsText(evs, dir))
		}
		lastWrite, flushed := -1, -1
		for j, e := range evs[:rename] {
			if fdPath(e) != src {
				continue
			}
			if isWrite(e.name) {
				lastWrite = j
			}
			if (e.name == "fsync" || e.name == "fdatasync") && strings.HasSuffix(strings.TrimSpace(e.line), "= 0") {
				flushed = j
			}
		}
		if lastWrite < 0 {
			return fmt.Sprintf("operation %d (%s) renames %s onto the key without having written to it; calls: %s", i, op, filepath.Base(src), fsCallsText(evs, dir))
		}
		if flushed < lastWrite {
			return fmt.Sprintf("operation %d (%s) returned nil, yet no fsync of %s lies between its last data write and the rename onto the key: the value became visible before it was flushed; calls: %s",
				i, op, filepath.Base(src), fsCallsText(evs, dir))
		}
	}
	return ""
}

// fsCallText renders a call of the dry run less its result.
func fsCallText(e fsEvent, dir string) string {
	s := strings.ReplaceAll(e.line, dir, "<dir>")
	if i := strings.LastIndex(s, ") = "); i >= 0 {
		s = s[:i+1]
	}
	s = regexp.MustCompile(`AT_FDCWD<[^>]*>`).ReplaceAllString(s, "AT_FDCWD")
	return strings.Join(strings.Fields(s), " ")
}

func fsCallsText(evs []fsEvent, dir string) string {
	var s []string
	for _, e := range evs {
		s = append(s, e.name)
	}
	return strings.Join(s, " ")
}

// ---- generators ----

var fsKeyPool = []uint{0x00000, 0x00001, 0x0002a, 0x00abc, 0x08001, 0x0c000, 0x10000, 0x12345, 0x1ffff}

func fsDrawKeys(rt *rapid.T, min, max int) []uint {
	return rapid.SliceOfNDistinct(rapid.SampledFrom(fsKeyPool), min, max, rapid.ID[uint]).Draw(rt, "keys")
}

func fsDrawSize(rt *rapid.T, big int) int {
	classes := []int{0, 1, 1, 2, 2, 3, 4}
	if thorough {
		classes = append(classes, 5, 5, 6)
	}
	switch rapid.SampledFrom(classes).Draw(rt, "sizeClass") {
	case 0:
		return 12
	case 1:
		return rapid.IntRange(12, 64).Draw(rt, "size")
	case 2:
		return rapid.IntRange(65, 5000).Draw(rt, "size")
	case 3:
		return rapid.SampledFrom([]int{4095, 4096, 4097, 8192, 65536}).Draw(rt, "size")
	case 4:
		return rapid.IntRange(5001, 65536).Draw(rt, "size")
	case 5:
		return rapid.IntRange(65537, big).Draw(rt, "size")
	}
	return rapid.SampledFrom([]int{1 << 20, big}).Draw(rt, "size")
}

func fsDrawParts(rt *rapid.T, size int) []int {
	n := rapid.IntRange(1, 3).Draw(rt, "nparts")
	cuts := map[int]bool{}
	for i := 1; i < n; i++ {
		cuts[rapid.IntRange(1, size-1).Draw(rt, "cut")] = true
	}
	var at []int
	for c := range cuts {
		at = append(at, c)
	}
	sort.Ints(at)
	var parts []int
	prev := 0
	for _, c := range at {
		parts = append(parts, c-prev)
		prev = c
	}
	return append(parts, size-prev)
}

// fsDrawStrays: files which are in the directory before the script starts.
// All of them are things a directory of this store may well contain: spool
// files which an earlier stop left behind, and files of somebody else. None
// has the form of a key (five hexadecimal digits).
func fsDrawStrays(rt *rapid.T, keys []uint) []string {
	kinds := rapid.SliceOfNDistinct(rapid.SampledFrom([]string{"spool-of-key", "spool-of-other", "short-hex", "long-hex", "text"}), 0, 3, rapid.ID[string]).Draw(rt, "strays")
	seen := map[string]bool{}
	var names []string
	for _, kind := range kinds {
		var name string
		switch kind {
		case "spool-of-key":
			name = fmt.Sprintf("%05x.spool", keys[0])
		case "spool-of-other":
			name = "00777.spool"
		case "short-hex":
			name = fmt.Sprintf("%x", keys[0])
		case "long-hex":
			name = fmt.Sprintf("%07x", keys[0])
		case "text":
			name = "notes.txt"
		}
		if len(name) == 5 || seen[name] {
			continue // would be a key
		}
		seen[name] = true
		names = append(names, name)
	}
	sort.Strings(names)
	return names
}

type fsLimitDraw struct {
	at     int
	limit  int64
	ignore bool
}

// ---- the check ----

func TestC19FileSystemStops(t *testing.T) {
	if err := fsEnv(); err != nil {
		t.Fatalf("VERIF-INFRA %v", err)
	}
	base := fsBase(t)
	workers := fsWorkers()
	rec := stats.For("C19")
	rec.Note("fault-points", "every system call which an operation issues on its thread, less the Go runtime's own (signals, memory, futex, scheduling), "+
		"is a fault point: SIGKILL at its entry (= at the exit of the one before; the exit of the last one is the completed run) and an error return in its place")
	rec.Note("byte-counts", "a stop inside the data write is made with RLIMIT_FSIZE: the kernel writes up to the limit, the next write raises SIGXFSZ, "+
		"which stops the child where it stands (it restores the kernel's default disposition of that signal; the Go runtime would take it); "+
		"left to the Go runtime the write fails with EFBIG instead, which is the other half of these runs. Byte counts are drawn per script (with the buffer seams and 0 among them), "+
		"not enumerated; the buffers of a value (1-3 write calls) are enumerated")
	maxOps, maxLimits, big := 6, 2, 4<<20
	if thorough {
		maxOps, maxLimits = 10, 6
	}

	rapid.Check(t, func(rt *rapid.T) {
		c := &fsCase{}
		c.keys = fsDrawKeys(rt, 1, 3)
		c.strays = fsDrawStrays(rt, c.keys)
		nops := rapid.IntRange(1, maxOps).Draw(rt, "nops")
		var saves []int
		for i := 0; i < nops; i++ {
			op := fsOp{Op: rapid.SampledFrom([]string{"save", "save", "save", "save", "save", "delete", "delete", "load", "list"}).Draw(rt, "op")}
			if op.Op != "list" {
				op.Key = rapid.SampledFrom(c.keys).Draw(rt, "key")
			}
			if op.Op == "save" {
				op.Ver = uint32(i + 1)
				op.Parts = fsDrawParts(rt, fsDrawSize(rt, big))
				saves = append(saves, i)
			}
			c.ops = append(c.ops, op)
		}
		var limits []fsLimitDraw
		var extra []string
		if len(saves) != 0 {
			for i, n := 0, rapid.IntRange(0, maxLimits).Draw(rt, "nlimits"); i < n; i++ {
				l := fsLimitDraw{at: rapid.SampledFrom(saves).Draw(rt, "limitAt"), ignore: rapid.Bool().Draw(rt, "ignoreSIGXFSZ")}
				op := c.ops[l.at]
				switch rapid.IntRange(0, 3).Draw(rt, "limitClass") {
				case 0:
					l.limit = 0 // not one byte
				case 1:
					l.limit = int64(op.Parts[0]) // at the first seam, or the end
				case 2:
					l.limit = int64(op.size() - 1)
				default:
					l.limit = int64(rapid.IntRange(1, op.size()-1).Draw(rt, "limit"))
				}
				if l.limit >= int64(op.size()) {
					l.limit = int64(op.size() - 1)
				}
				limits = append(limits, l)
				extra = append(extra, fmt.Sprintf("size limit of %d bytes from operation %d on, SIGXFSZ left to the Go runtime (EFBIG)=%t", l.limit, l.at, l.ignore))
			}
		}
		c.prepare()
		canonical := c.canonical(extra)
		c.base = filepath.Join(base, fmt.Sprintf("case-%d-%d", os.Getpid(), fsCaseSeq.Add(1)))
		if err := os.MkdirAll(c.base, 0o755); err != nil {
			rt.Fatalf("VERIF-INFRA %v", err)
		}
		defer os.RemoveAll(c.base)

		var dryDir string
		fail := func(r *fsRun, dry *fsTrace, _, why string) {
			dir := dryDir
			where := "in the run without faults"
			switch r.kind {
			case "kill":
				e := dry.events[r.point]
				where = fmt.Sprintf("after SIGKILL at the entry of call %d, %s, inside operation %d (%s)", r.point, fsCallText(e, dir), r.op, c.ops[r.op])
			case "error", "double":
				e := dry.events[r.point]
				where = fmt.Sprintf("with %s injected in call %d, %s, inside operation %d (%s)", r.errno, r.point, fsCallText(e, dir), r.op, c.ops[r.op])
				if r.kind == "double" {
					where += " and in the removal of the spool file that follows"
				}
			case "fsize-kill":
				where = fmt.Sprintf("after SIGXFSZ at byte %d of the data of operation %d (%s)", r.limit, r.op, c.ops[r.op])
			case "fsize-error":
				where = fmt.Sprintf("with writes beyond byte %d failing (EFBIG) from operation %d (%s) on", r.limit, r.op, c.ops[r.op])
			}
			violate(rt, "C19", "%s: %s\nscript:\n%s", where, why, canonical)
		}

		// 1. dry run
		dryRun := &fsRun{kind: "dry", point: -1, op: -1}
		dres, err := c.exec(dryRun, true)
		if dres != nil && dres.cleanup != nil {
			defer dres.cleanup()
		}
		if err != nil {
			rt.Fatalf("VERIF-INFRA dry run: %v", err)
		}
		dry := dres.trace
		dryDir = dres.dir
		if !dry.finished || len(dry.opEnded) != len(c.ops) {
			rt.Fatalf("VERIF-INFRA dry run incomplete: %s %s", dry.end, dres.stderr)
		}
		none := func(int) string { return "" }
		why, ierr := c.judgeCompleted(dres, none, none)
		if ierr != nil {
			rt.Fatalf("VERIF-INFRA dry run: %v", ierr)
		}
		if why == "" {
			why = c.checkRecovery(dres.dir, c.keys[0], c.finalState(dres))
		}
		rec.Case(canonical, false, "dry-run")
		if why != "" {
			fail(dryRun, dry, dres.dir, why)
		}

		// 2. the fault points, all of them
		existing := make([]bool, len(c.ops)) // operation overwrites or deletes what is there
		st := fsState{}
		for i, op := range c.ops {
			if op.Op == "save" || op.Op == "delete" {
				existing[i] = st.get(op.Key)[0].n != 0
			}
			c.apply(st, op)
		}
		unlinkName := "unlinkat"
		for _, e := range dry.events {
			if c.ops[e.op].Op == "delete" && strings.HasPrefix(e.name, "unlink") {
				unlinkName = e.name
				break
			}
		}
		var runs []*fsRun
		firstWrite := map[int]bool{}
		for p, e := range dry.events {
			ord := dry.ordinal(e.name, e.pos)
			runs = append(runs, &fsRun{kind: "kill", point: p, op: e.op, injects: []fsInject{{e.name, ord, "signal=SIGKILL"}}})
			errnos := []string{"EIO"}
			if c.ops[e.op].Op == "save" && fsSaveCritical[e.name] {
				errnos = append(errnos, "ENOSPC")
			}
			for _, errno := range errnos {
				runs = append(runs, &fsRun{kind: "error", point: p, op: e.op, errno: errno, injects: []fsInject{{e.name, ord, "error=" + errno}}})
			}
			if c.ops[e.op].Op == "save" && e.name == "write" && !firstWrite[e.op] {
				// the data write fails and so does the clean-up
				firstWrite[e.op] = true
				runs = append(runs, &fsRun{kind: "double", point: p, op: e.op, errno: "EIO", injects: []fsInject{
					{e.name, ord, "error=EIO"}, {unlinkName, dry.ordinal(unlinkName, e.pos) + 1, "error=EIO"}}})
			}
		}
		for _, l := range limits {
			kind := "fsize-kill"
			if l.ignore {
				kind = "fsize-error"
			}
			runs = append(runs, &fsRun{kind: kind, point: -1, op: l.at, limitAt: l.at, limit: l.limit, ignore: l.ignore})
		}

		type verdict struct {
			why   string
			infra error
			dir   string
		}
		verdicts := make([]verdict, len(runs))
		var stop atomic.Bool
		var wg sync.WaitGroup
		next := atomic.Int64{}
		one := func(r *fsRun) (v verdict) {
			traced := r.point >= 0
			var res *fsRunResult
			var err error
			for attempt := 0; ; attempt++ {
				if res != nil {
					res.cleanup()
				}
				res, err = c.exec(r, traced)
				if err != nil {
					break
				}
				if !traced {
					break
				}
				// did the fault land where it should?
				mismatch := sameHead(dry, res.trace, r.point)
				if mismatch == "" {
					e := res.trace.events[r.point]
					switch {
					case r.kind == "kill" && (!strings.Contains(res.trace.end, "SIGKILL") || len(res.trace.events) != r.point+1):
						mismatch = fmt.Sprintf("the process was not stopped at the fault point (%d calls, end %q)", len(res.trace.events), res.trace.end)
					case r.kind != "kill" && !e.injected:
						mismatch = "the call at the fault point carries no injection mark"
					}
				}
				if mismatch == "" {
					break
				}
				if attempt == 2 {
					err = infraf("fault %v did not land as planned in 3 attempts: %s", r.injects, mismatch)
					break
				}
				rec.Label("fault-placement-retry", 1)
			}
			if res != nil {
				defer res.cleanup()
				v.dir = res.dir
			}
			if err != nil {
				v.infra = err
				return v
			}
			switch r.kind {
			case "kill":
				v.why = c.judgeStopped(res.dir, r.op)
			case "fsize-kill":
				if res.signal != syscall.SIGXFSZ {
					v.infra = infraf("size limit %d at operation %d: the child was to end with SIGXFSZ; signal %v exit %d %s", r.limit, r.op, res.signal, res.exit, res.stderr)
					return v
				}
				v.why = c.judgeStopped(res.dir, r.op)
			case "error", "double":
				name := dry.events[r.point].name
				mayFail := func(i int) string {
					if i == r.op {
						return fmt.Sprintf(" (the %s of this operation was made to fail)", name)
					}
					return ""
				}
				mustFail := func(i int) string {
					if i == r.op && c.ops[i].Op == "save" && fsSaveCritical[name] {
						return fmt.Sprintf("its %s failed with %s", name, r.errno)
					}
					return ""
				}
				v.why, v.infra = c.judgeCompleted(res, mayFail, mustFail)
				if v.why == "" && v.infra == nil {
					v.why = c.checkRecovery(res.dir, c.recoveryKey(r.op), c.finalState(res))
				}
			case "fsize-error":
				hit := func(i int) string {
					if i >= r.limitAt && c.ops[i].Op == "save" && int64(c.ops[i].size()) > r.limit {
						return fmt.Sprintf(" (no file can grow beyond %d bytes, the write failed)", r.limit)
					}
					return ""
				}
				v.why, v.infra = c.judgeCompleted(res, hit, func(i int) string { return strings.Trim(hit(i), " ()") })
				if v.why == "" && v.infra == nil {
					v.why = c.checkRecovery(res.dir, c.recoveryKey(r.op), c.finalState(res))
				}
			}
			return v
		}
		for w := 0; w < workers; w++ {
			wg.Add(1)
			go func() {
				defer wg.Done()
				for !stop.Load() {
					i := int(next.Add(1)) - 1
					if i >= len(runs) {
						return
					}
					verdicts[i] = one(runs[i])
					if verdicts[i].why != "" || verdicts[i].infra != nil {
						stop.Store(true)
					}
				}
			}()
		}
		wg.Wait()

		nontrivialScript := false
		done := 0
		for i, r := range runs {
			v := verdicts[i]
			if v.dir == "" && v.infra == nil {
				continue // skipped after a failure elsewhere
			}
			done++
			var label string
			switch r.kind {
			case "kill":
				label = "kill@" + dry.events[r.point].name
			case "error":
				label = "error@" + dry.events[r.point].name + ":" + r.errno
			case "double":
				label = "error@write+" + unlinkName
			default:
				label = r.kind
			}
			nt := existing[r.op]
			nontrivialScript = nontrivialScript || nt
			rec.Case(canonical, nt, label)
		}
		for i, r := range runs {
			if v := verdicts[i]; v.why != "" {
				fail(r, dry, v.dir, v.why)
			}
		}
		for _, v := range verdicts {
			if v.infra != nil {
				rt.Fatalf("VERIF-INFRA %v", v.infra)
			}
		}

		// 3. the order of the calls of a successful Save
		if why := c.judgeTrace(dres.dir, dry); why != "" {
			violate(rt, "C19", "in the system calls of the run without faults: %s\nscript:\n%s", why, canonical)
		}
		if done == len(runs) {
			rec.InnerExhaustive(1)
			rec.Label("scripts", 1)
			if nontrivialScript {
				rec.Label("scripts-nontrivial", 1)
			}
		}
	})
}

// TestC19Concurrent: processes and goroutines work on one directory at the
// same time, no faults. Every key has one writer; readers, listers and
// deleters roam freely. What a running process may observe is judged by the
// child (fschild conc); the directory afterwards is judged here.
func TestC19Concurrent(t *testing.T) {
	if err := fsEnv(); err != nil {
		t.Fatalf("VERIF-INFRA %v", err)
	}
	base := fsBase(t)
	rec := stats.For("C19")
	rec.Note("concurrency", "concurrent cases keep one writer (Save) per key, as the client does; Load, List and Delete of the same key run next to it from other goroutines and processes. "+
		"Two Saves of one key at the same time are not generated: the property speaks of operations on different keys. "+
		"(A probe by hand, two goroutines saving one key: Saves fail with 'rename …: no such file or directory' and the key shows mixed content, "+
		"as both write to the same <key>.spool.)")
	maxOps, maxSize := 30, 1<<16
	if thorough {
		maxOps, maxSize = 120, 1<<20
	}

	rapid.Check(t, func(rt *rapid.T) {
		c := &fsCase{}
		// One case in twelve: many savers of large values inside one process,
		// each with a key of its own, such that Saves of different keys
		// overlap inside their write calls.
		heavy := rapid.IntRange(0, 11).Draw(rt, "manySaversOfLargeValues") == 0
		if heavy {
			c.keys = append([]uint(nil), fsKeyPool...)
			for i := 0; i < 15; i++ {
				c.keys = append(c.keys, uint(0x08100+i*0x111))
			}
		} else {
			c.keys = fsDrawKeys(rt, 2, 6)
		}
		c.strays = fsDrawStrays(rt, c.keys)
		nproc := rapid.IntRange(1, 3).Draw(rt, "processes")
		if heavy {
			nproc = 1
		}
		var procs [][][]fsOp // process → routine → ops
		nroutines := 0
		for p := 0; p < nproc; p++ {
			n := rapid.IntRange(1, 3).Draw(rt, "routines")
			if nproc == 1 && n < 2 {
				n = 2
			}
			if heavy {
				n = len(c.keys)
			}
			procs = append(procs, make([][]fsOp, n))
			nroutines += n
		}
		owner := map[uint]int{}
		stable := map[uint]bool{}
		var stableKeys, volatileKeys []uint
		owned := make([][]uint, nroutines)
		for i, k := range c.keys {
			o := i
			if !heavy {
				o = rapid.IntRange(0, nroutines-1).Draw(rt, "owner")
			}
			owner[k] = o
			owned[o] = append(owned[o], k)
			if rapid.Bool().Draw(rt, "stable") {
				stable[k] = true
				stableKeys = append(stableKeys, k)
			} else {
				volatileKeys = append(volatileKeys, k)
			}
		}
		ver := uint32(1)
		last := map[uint]fsVal{} // what the owner's last operation leaves
		deleted := map[uint]bool{}
		for _, k := range stableKeys {
			last[k] = fsVal{ver: 0, n: 64}
		}
		ri := 0
		var script strings.Builder
		fmt.Fprintf(&script, "strays=%q stable=%s volatile=%s\n", c.strays, fsKeysText(stableKeys), fsKeysText(volatileKeys))
		nsaves := 0
		for p := range procs {
			for r := range procs[p] {
				n := rapid.IntRange(5, maxOps).Draw(rt, "nops")
				if heavy {
					n = rapid.IntRange(4, 8).Draw(rt, "nopsHeavy")
				}
				var ops []fsOp
				for i := 0; i < n; i++ {
					op := fsOp{Op: rapid.SampledFrom([]string{"save", "save", "save", "load", "load", "list", "delete"}).Draw(rt, "op")}
					if heavy && i%4 != 3 {
						op.Op = "save"
					}
					switch {
					case op.Op == "save" && len(owned[ri]) != 0:
						op.Key = rapid.SampledFrom(owned[ri]).Draw(rt, "key")
						op.Ver = ver
						ver++
						size := fsDrawSize(rt, maxSize)
						if size > maxSize {
							size = maxSize
						}
						if heavy {
							size = rapid.IntRange(256<<10, 1<<20).Draw(rt, "sizeHeavy")
						}
						op.Parts = fsDrawParts(rt, size)
						last[op.Key] = fsVal{ver: op.Ver, n: size}
						nsaves++
					case op.Op == "delete" && len(volatileKeys) != 0:
						op.Key = rapid.SampledFrom(volatileKeys).Draw(rt, "key")
						if owner[op.Key] == ri {
							last[op.Key] = fsVal{}
						} else {
							deleted[op.Key] = true
						}
					case op.Op == "list":
					default:
						op.Op = "load"
						op.Key = rapid.SampledFrom(c.keys).Draw(rt, "key")
					}
					ops = append(ops, op)
					fmt.Fprintf(&script, "process %d routine %d: %s\n", p, r, op)
				}
				procs[p][r] = ops
				ri++
			}
		}
		c.prepare()
		for k, v := range last {
			if v.n != 0 {
				if c.vals[k] == nil {
					c.vals[k] = map[uint32][]byte{}
				}
				c.vals[k][v.ver] = c19Value(k, v.ver, v.n)
			}
		}
		canonical := script.String()
		c.base = filepath.Join(base, fmt.Sprintf("conc-%d-%d", os.Getpid(), fsCaseSeq.Add(1)))
		dir := filepath.Join(c.base, "d")
		if err := os.MkdirAll(dir, 0o755); err != nil {
			rt.Fatalf("VERIF-INFRA %v", err)
		}
		defer os.RemoveAll(c.base)
		for _, name := range c.strays {
			if err := os.WriteFile(filepath.Join(dir, name), []byte("stray "+name), 0o644); err != nil {
				rt.Fatalf("VERIF-INFRA %v", err)
			}
		}
		store := mqtt.FileSystem(dir)
		for _, k := range stableKeys {
			if err := store.Save(k, net.Buffers{c19Value(k, 0, 64)}); err != nil {
				rt.Fatalf("VERIF-INFRA cannot save the initial value of %#05x: %v", k, err)
			}
		}

		type proc struct {
			cmd    *exec.Cmd
			stdin  interface{ Close() error }
			stdout bytes.Buffer
			stderr bytes.Buffer
		}
		ctx, cancel := context.WithTimeout(context.Background(), 120*time.Second)
		defer cancel()
		var running []*proc
		for p := range procs {
			s := fsScript{Dir: dir, Routines: procs[p], Stable: stableKeys, Universe: c.keys}
			data, _ := json.Marshal(&s)
			file := filepath.Join(c.base, fmt.Sprintf("script%d.json", p))
			if err := os.WriteFile(file, data, 0o644); err != nil {
				rt.Fatalf("VERIF-INFRA %v", err)
			}
			pr := &proc{cmd: exec.CommandContext(ctx, fsChild, "conc", file)}
			pr.cmd.Env = append(os.Environ(), "GOMAXPROCS=4", "GOTRACEBACK=none")
			pr.cmd.Stdout, pr.cmd.Stderr = &pr.stdout, &pr.stderr
			in, err := pr.cmd.StdinPipe()
			if err == nil {
				err = pr.cmd.Start()
			}
			if err != nil {
				for _, q := range running {
					q.stdin.Close()
					q.cmd.Wait()
				}
				rt.Fatalf("VERIF-INFRA cannot start the child: %v", err)
			}
			pr.stdin = in
			running = append(running, pr)
		}
		time.Sleep(5 * time.Millisecond) // let them reach their starting blocks
		for _, pr := range running {
			pr.stdin.Close()
		}
		var problems []string
		var infra string
		for p, pr := range running {
			err := pr.cmd.Wait()
			var o fsOutput
			if err != nil || json.Unmarshal(bytes.TrimSpace(pr.stdout.Bytes()), &o) != nil {
				infra = fmt.Sprintf("process %d: %v; output %.300s; stderr %.300s", p, err, pr.stdout.String(), pr.stderr.String())
				continue
			}
			for _, s := range o.Problems {
				problems = append(problems, fmt.Sprintf("process %d %s", p, s))
			}
			for k, n := range o.Counts {
				rec.Label("concurrent-"+k, n)
			}
		}
		_ = nsaves
		rec.Case(canonical, false, "concurrent-run") // non-trivial is reserved for fault points, see the rule
		if heavy {
			rec.Label("concurrent-many-savers-of-large-values", 1)
		}
		if len(problems) != 0 {
			sort.Strings(problems)
			violate(rt, "C19", "concurrent run without faults: %s\nscript:\n%s", strings.Join(problems, "; "), canonical)
		}
		if infra != "" {
			rt.Fatalf("VERIF-INFRA %s", infra)
		}
		st := fsState{}
		for _, k := range c.keys {
			allowed := []fsVal{last[k]}
			if deleted[k] {
				allowed = fsUnion(allowed, []fsVal{{}})
			}
			st[k] = allowed
		}
		if why := c.checkDir(dir, st); why != "" {
			violate(rt, "C19", "after a concurrent run without faults (every key has one writer): %s\nscript:\n%s", why, canonical)
		}
	})
}
