package props

import (
	"fmt"
	"testing"
	"time"

	"verifh/refmqtt"

	"github.com/pascaldekloe/mqtt"
	"pgregory.net/rapid"
	"verifh/sim"
)

var (
	errDown   = mqtt.ErrDown
	errSubmit = mqtt.ErrSubmit
)

// faultActions are the environment actions shared by the outbound properties.
type faultCounters struct {
	connLoss, failedConnect, storeFault, midResend, loseTail int
}

func (h *H) faultActions(rt *rapid.T, fc *faultCounters) map[string]func(*rapid.T) {
	cutNear := func(label string) int {
		if rapid.IntRange(0, 3).Draw(rt, label+"Far") == 0 {
			return rapid.IntRange(0, 300).Draw(rt, label)
		}
		return rapid.IntRange(0, 12).Draw(rt, label)
	}
	return map[string]func(*rapid.T){
		"releaseAcks": func(rt *rapid.T) {
			c := h.Current()
			if c == nil || len(c.Owed()) == 0 {
				rt.Skip("nothing owed")
			}
			h.releaseAcks(rapid.IntRange(1, 5).Draw(rt, "n"))
		},
		"releaseKind": func(rt *rapid.T) {
			h.App.Step()
			if !h.releaseKind(rt) {
				rt.Skip("nothing owed")
			}
		},
		"armWrite": func(rt *rapid.T) {
			if h.Current() == nil {
				rt.Skip("no connection")
			}
			kind := rapid.SampledFrom([]int{sim.WTimeoutProgress, sim.WTimeout, sim.WReset, sim.WReset}).Draw(rt, "kind")
			h.armWrite(cutNear("cut"), kind)
			fc.connLoss++
		},
		"armRead": func(rt *rapid.T) {
			c := h.Current()
			if c == nil {
				rt.Skip("no connection")
			}
			kind := rapid.SampledFrom([]int{sim.REOF, sim.RReset, sim.RExpiry, sim.RExpiryProgress}).Draw(rt, "kind")
			d := rapid.IntRange(0, 9).Draw(rt, "cut")
			c.ArmRead(sim.RFault{Off: c.InEnqueued() + d, Kind: kind})
			h.Act("armRead conn=%d off=+%d kind=%s", c.N, d, rfaultNames[kind])
			fc.connLoss++
			h.settleInbound()
		},
		"breakNow": func(rt *rapid.T) {
			c := h.Current()
			if c == nil {
				rt.Skip("no connection")
			}
			graceful := rapid.Bool().Draw(rt, "graceful")
			h.Act("break conn=%d graceful=%t", c.N, graceful)
			c.Break(graceful)
			fc.connLoss++
			h.settleInbound()
		},
		"loseTail": func(rt *rapid.T) {
			c := h.Current()
			if c == nil || c.Blackholed() {
				rt.Skip("no connection")
			}
			d := cutNear("tail")
			h.Act("loseTail conn=%d off=+%d", c.N, d)
			c.Blackhole(c.OutLen() + d)
			fc.loseTail++
		},
		"dialScript": func(rt *rapid.T) {
			n := rapid.IntRange(1, 3).Draw(rt, "n")
			var outcomes []sim.DialOutcome
			var names []string
			for i := 0; i < n; i++ {
				switch k := rapid.IntRange(0, 4).Draw(rt, "kind"); k {
				case 0:
					outcomes = append(outcomes, sim.DialOutcome{Kind: sim.DialErr})
					names = append(names, "dial-error")
				case 1:
					code := byte(rapid.IntRange(1, 5).Draw(rt, "code"))
					outcomes = append(outcomes, sim.DialOutcome{Connack: &sim.ConnackPolicy{Kind: sim.ConnackAuto, Code: code}})
					names = append(names, "refuse")
				case 2:
					raw := rapid.SampledFrom([][]byte{{0x20, 2, 2, 0}, {0x20, 3, 0, 0}, {0x30, 2, 0, 0}, {0x20, 2, 0}}).Draw(rt, "raw")
					outcomes = append(outcomes, sim.DialOutcome{Connack: &sim.ConnackPolicy{Kind: sim.ConnackRaw, Raw: raw}})
					names = append(names, "malformed-connack")
				case 3:
					outcomes = append(outcomes, sim.DialOutcome{Connack: &sim.ConnackPolicy{Kind: sim.ConnackEOF}})
					names = append(names, "eof-in-handshake")
				case 4:
					outcomes = append(outcomes, sim.DialOutcome{Kind: sim.DialOK})
					names = append(names, "ok")
				}
			}
			h.ScriptDial(outcomes...)
			h.Act("dialScript %v", names)
			fc.failedConnect++
		},
		// a Persistence failure placed exactly at a hand-over point: the
		// PUBREL save after PUBREC, or the Delete after PUBACK/PUBCOMP
		"failAckStore": func(rt *rapid.T) {
			c := h.Current()
			if c == nil {
				rt.Skip("no connection")
			}
			owed := c.Owed()
			if len(owed) == 0 {
				rt.Skip("nothing owed")
			}
			switch owed[0].Kind {
			case refmqtt.PUBREC:
				h.Store.FailNext('S')
			case refmqtt.PUBACK, refmqtt.PUBCOMP:
				h.Store.FailNext('D')
			default:
				rt.Skip("not a publish acknowledgement")
			}
			h.Act("failAckStore on %s", owed[0])
			h.App.Step()
			c.Release(0)
			h.settleInbound()
			h.Store.ClearFaults()
			fc.storeFault++
		},
		// a Save which is slow on the publisher's goroutine while the read
		// routine stores on its own: Persistence operations of two goroutines overlap
		"slowSave": func(rt *rapid.T) {
			c := h.Current()
			if c == nil || len(c.Owed()) == 0 || h.Store.Parked() > 0 {
				rt.Skip("nothing for the read routine to store meanwhile")
			}
			h.Store.ParkNext('S')
			level := byte(rapid.IntRange(1, 2).Draw(rt, "level"))
			h.Act("slowSave: the next Save parks")
			call := h.pub(level, rapid.Bool().Draw(rt, "retain"))
			if h.Store.Parked() == 0 {
				h.Store.ClearParks()
				return // refused before it got to the Persistence
			}
			h.App.Step()
			h.releaseAcks(rapid.IntRange(1, 4).Draw(rt, "n"))
			// … and a publisher on the other level stores meanwhile too
			var other *sim.Call
			if rapid.Bool().Draw(rt, "otherLevelMeanwhile") {
				other = h.pub(3-level, rapid.Bool().Draw(rt, "retainOther"))
			}
			// … and requests which do not store at all compose their packets
			for i, k := 0, rapid.IntRange(0, 2).Draw(rt, "unrelatedMeanwhile"); i < k; i++ {
				h.pub(0, false)
			}
			defer func() {
				if other == nil {
					return
				}
				h.SettleCall(other)
				for _, c := range h.accepted[3-level] {
					if c == other {
						return
					}
				}
				if h.IsDone(other) && other.Err == nil {
					h.accepted[3-level] = append(h.accepted[3-level], other)
				}
			}()
			h.Act("slowSave: released")
			h.Store.Release()
			h.Store.ClearParks()
			h.SettleCall(call)
			h.PollExchanges()
			if h.IsDone(call) && call.Err == nil {
				h.accepted[level] = append(h.accepted[level], call)
			}
		},
		// The connection is lost and the read routine reconnects while a
		// publisher sits in a slow Save (it holds its level's sequence lock,
		// which connect needs before the resend); a publisher of the other
		// level arrives meanwhile. Whatever order the locks are taken in:
		// what was accepted goes out on the new connection.
		"slowSaveAcrossReconnect": func(rt *rapid.T) {
			c := h.Current()
			if c == nil || !c.Accepted() || h.Store.Parked() > 0 || c.WritersParked() > 0 || len(h.ParkedGates()) != 0 {
				rt.Skip("no accepted connection at rest")
			}
			level := byte(rapid.IntRange(1, 2).Draw(rt, "level"))
			h.Store.ParkNext('S')
			h.Act("slowSaveAcrossReconnect: the next Save parks")
			call := h.pub(level, false)
			if h.Store.Parked() == 0 {
				h.Store.ClearParks()
				return // refused before it got to the Persistence
			}
			h.Act("break conn=%d; the read routine reconnects as far as it gets", c.N)
			c.Break(false)
			for i := 0; i < 3; i++ {
				h.App.Step()
				h.PollQuiet(2*time.Millisecond, func() bool { return false })
			}
			other := h.pub(3-level, false)
			h.PollQuiet(2*time.Millisecond, func() bool { return false })
			h.Act("slowSaveAcrossReconnect: released")
			h.Store.Release()
			h.Store.ClearParks()
			h.SettleCall(call)
			h.SettleCall(other)
			h.PollExchanges()
			for _, x := range []struct {
				c *sim.Call
				l byte
			}{{call, level}, {other, 3 - level}} {
				known := false
				for _, c := range h.accepted[x.l] {
					if c == x.c {
						known = true
					}
				}
				if !known && h.IsDone(x.c) && x.c.Err == nil {
					h.accepted[x.l] = append(h.accepted[x.l], x.c)
				}
			}
			fc.connLoss++
			h.label("reconnect-while-a-publisher-holds-a-sequence-lock")
		},
		// A publish without payload is two buffers of which the second is
		// empty; the connection fails, parks or is closed right after the
		// packet's last byte. (Only a pipe-like connection makes a Write of
		// nothing fail or wait by itself.)
		"emptyPayloadCut": func(rt *rapid.T) {
			c := h.Current()
			if c == nil || !c.Accepted() || c.WritersParked() > 0 {
				rt.Skip("no accepted connection")
			}
			level := byte(rapid.IntRange(1, 2).Draw(rt, "level"))
			topic := fmt.Sprintf("t%d", h.nTopic+1)
			size := 2 + 2 + len(topic) + 2
			kind := rapid.SampledFrom([]int{sim.WReset, sim.WTimeout, sim.WPark}).Draw(rt, "kind")
			c.ArmWrite(sim.WFault{Off: c.OutLen() + size, Kind: kind})
			h.Act("emptyPayloadCut: fault %s right behind the next packet (%d bytes)", wfaultNames[kind], size)
			h.forceTopic, h.forceEmpty = topic, true
			call := h.pub(level, false)
			h.forceTopic, h.forceEmpty = "", false
			if c.WritersParked() > 0 {
				h.Act("break conn=%d", c.N)
				c.Break(rapid.Bool().Draw(rt, "graceful"))
				h.SettleCall(call)
				h.PollExchanges()
			}
			h.settleInbound()
		},
		// a publisher is stuck inside Write (the peer stopped draining) when
		// the inbound direction fails: the read routine gives the connection
		// up, which is what releases the publisher
		"writerStuckThenReadFails": func(rt *rapid.T) {
			c := h.Current()
			if c == nil || !c.Accepted() || c.WritersParked() > 0 || h.Store.Parked() > 0 || len(h.ParkedGates()) > 0 || !h.App.InCall() || !h.ReaderWaiting() {
				rt.Skip("needs an idle accepted connection with the read routine waiting for input")
			}
			level := byte(rapid.IntRange(1, 2).Draw(rt, "level"))
			c.ArmWrite(sim.WFault{Off: c.OutLen() + rapid.IntRange(0, 12).Draw(rt, "parkOff"), Kind: sim.WPark})
			h.Act("writerStuckThenReadFails: the next Write parks")
			call := h.pub(level, false)
			if c.WritersParked() == 0 || h.IsDone(call) || !h.ReaderWaiting() {
				// refused before it got to the connection, or somebody else parked
				for c.ReleaseWrite() {
				}
				return
			}
			// (only the inbound direction fails: the Write stays stuck until
			// somebody closes the connection)
			rk := rapid.SampledFrom([]int{sim.RReset, sim.REOF}).Draw(rt, "readFault")
			h.Act("inbound %s on conn=%d", rfaultNames[rk], c.N)
			c.ArmRead(sim.RFault{Off: c.InEnqueued(), Kind: rk})
			h.MustPoll("the publisher which is stuck inside Write being released by the read routine giving up the connection", func() bool { return c.WritersParked() == 0 })
			h.SettleCall(call)
			h.settleInbound()
			h.PollExchanges()
			if h.IsDone(call) && call.Err == nil {
				found := false
				for _, a := range h.accepted[level] {
					found = found || a == call
				}
				if !found {
					h.accepted[level] = append(h.accepted[level], call)
				}
			}
		},
		"storeFault": func(rt *rapid.T) {
			kind := rapid.SampledFrom([]byte{'S', 'D', 'L'}).Draw(rt, "op")
			h.Store.FailNext(kind)
			h.Act("storeFault next %c fails", kind)
			fc.storeFault++
		},
		"parkResend": func(rt *rapid.T) {
			armed := false
			h.WithLock(func() { armed = h.NextConnOpts != nil })
			if armed {
				rt.Skip("armed already")
			}
			d := rapid.IntRange(0, 40).Draw(rt, "off")
			h.Act("parkResend next-conn off=connect+%d", d)
			h.WithLock(func() {
				h.NextConnOpts = func(c *sim.Conn) {
					c.ArmWriteLocked(sim.WFault{Off: connectLen + d, Kind: sim.WPark})
					h.NextConnOpts = nil
				}
			})
			fc.midResend++
		},
		"releaseWrite": func(rt *rapid.T) {
			released := false
			for _, c := range h.AllConns() {
				if c.WritersParked() > 0 {
					h.Act("releaseWrite conn=%d", c.N)
					c.ReleaseWrite()
					released = true
					break
				}
			}
			if !released {
				rt.Skip("nothing parked")
			}
			h.PollQuiet(quiet, func() bool { return false })
			h.PollExchanges()
		},
		"appStep": func(rt *rapid.T) {
			h.Act("appStep")
			h.appStep("appStep")
			h.PollExchanges()
		},
	}
}

var rfaultNames = map[int]string{sim.REOF: "eof", sim.RReset: "reset", sim.RExpiry: "stall", sim.RExpiryProgress: "expiry-with-progress"}

// connectLen is the size of the CONNECT packet for clientID and baseConfig.
const connectLen = 14 + len(clientID)

// C01 — accepted persisted publishes are retransmitted until acknowledged.
func TestC01Retransmit(t *testing.T) {
	rapid.Check(t, func(rt *rapid.T) {
		cfg := baseConfig()
		cfg.AtLeastOnceMax = rapid.SampledFrom([]int{1, 2, 3, 5, 16}).Draw(rt, "max1")
		cfg.ExactlyOnceMax = rapid.SampledFrom([]int{1, 2, 3, 5, 16}).Draw(rt, "max2")
		// (a clean session asks the broker to start blank; what the client itself
		// accepted before its first connection is still its to deliver)
		cfg.CleanSession = rapid.IntRange(0, 2).Draw(rt, "cleanSession") == 0
		// (sometimes the session stands just before the wrap of the 14-bit
		// identifier sequence: the window of pending transfers straddles it)
		var h *H
		if rapid.IntRange(0, 3).Draw(rt, "startAtWrap") == 0 && cfg.AtLeastOnceMax > 1 && cfg.ExactlyOnceMax > 1 {
			h = newWrapH(rt, "C01", cfg, []byte{1, 2})
		} else {
			h = newH(rt, "C01", asVolatileSession(rt, sim.Options{Config: cfg}))
		}
		h.Act("config AtLeastOnceMax=%d ExactlyOnceMax=%d", cfg.AtLeastOnceMax, cfg.ExactlyOnceMax)
		var fc faultCounters
		nontrivial := false
		defer func() { h.finish(nontrivial) }()

		if rapid.IntRange(0, 3).Draw(rt, "connectFirst") != 0 {
			h.Act("appStep")
			h.appStep("first connect")
		}

		actions := h.faultActions(rt, &fc)
		actions["pub1"] = func(rt *rapid.T) { h.pub(1, rapid.Bool().Draw(rt, "retain")) }
		actions["pub2"] = func(rt *rapid.T) { h.pub(2, rapid.Bool().Draw(rt, "retain")) }
		actions["pub1b"] = actions["pub1"]
		actions["pub2b"] = actions["pub2"]
		// traffic in the other direction shares the read routine's buffers
		actions["brokerSend"] = func(rt *rapid.T) {
			c := h.Current()
			if c == nil || !c.Accepted() || c.Blackholed() {
				rt.Skip("no accepted connection")
			}
			h.brokerSend(byte(rapid.IntRange(0, 2).Draw(rt, "inboundLevel")), rapid.IntRange(0, 40).Draw(rt, "inboundLen"))
		}
		actions[""] = func(rt *rapid.T) {
			noPanics(h)
			h.checkWire()
			msgs := h.messages()
			h.checkLifecycle(msgs)
			h.checkResend(msgs, false)
			h.checkNoDoubleDelivery()
		}
		rt.Repeat(actions)

		// (adopted transfers have no exchange channel to wait for: their
		// records leaving the Persistence is the observable)
		h.slowDrain = rapid.IntRange(0, 3).Draw(rt, "slowSteadyLinkAtTheEnd") == 0
		h.drain(func() bool { return h.allPersistedDone() && (len(h.inherited) == 0 || h.outboundStoreEmpty()) })
		noPanics(h)
		h.checkWire()
		msgs := h.messages()
		h.checkLifecycle(msgs)
		resent := h.checkResend(msgs, false)
		h.checkDelivered(msgs, h.Broker)
		for _, m := range msgs {
			if m.AcceptedSeq != 0 && (m.DeleteSeq == 0 || h.Store.Has(uint(m.ID))) {
				h.Failf("after drain the record of %#04x (%q) is still in the Persistence", m.ID, m.Req.Topic)
			}
		}
		if resent > 0 {
			h.label("resent-on-reconnect")
		}
		if fc.storeFault > 0 {
			h.label("store-fault")
		}
		if fc.failedConnect > 0 {
			h.label("failed-connect-scripted")
		}
		if fc.midResend > 0 {
			h.label("publish-mid-resend-armed")
		}
		if fc.loseTail > 0 {
			h.label("lost-tail")
		}
		// non-trivial: a message was unacknowledged across a connection
		// loss, failed connect or store fault and completed later
		nontrivial = len(msgs) > 0 && (resent > 0 || fc.storeFault > 0 && len(msgs) > 0)
	})
}
