package props

import (
	"fmt"
	"testing"

	"github.com/pascaldekloe/mqtt"

	"pgregory.net/rapid"
	"verifh/refmqtt"
	"verifh/sim"
)

// TestC02FullWindow: a process stops with a level's window as full as the
// configuration allows (ExactlyOnceMax resp. AtLeastOnceMax = 16384: one
// whole turn of the 14-bit identifier sequence), at any position of the
// sequence. The next process resumes exactly those transfers, in order.
func TestC02FullWindow(t *testing.T) {
	rapid.Check(t, func(rt *rapid.T) {
		level := byte(rapid.IntRange(1, 2).Draw(rt, "level"))
		space := map[byte]uint16{1: 0x8000, 2: 0xc000}[level]
		first := uint16(rapid.SampledFrom([]int{0, 1, 0x1fff, 0x2000, 0x3ffe, 0x3fff}).Draw(rt, "firstIdentifier"))
		n := rapid.SampledFrom([]int{16384, 16384, 16383, 8192}).Draw(rt, "pending")
		// how many of them (the oldest) are at the PUBREL stage already
		released := 0
		if level == 2 {
			released = rapid.SampledFrom([]int{0, 0, 1, n / 2, n - 1, n}).Draw(rt, "atReleaseStage")
		}
		store := map[uint][]byte{0: storedRecord([]byte(clientID), 1)}
		var want []string
		for i := 0; i < n; i++ {
			id := space | (first+uint16(i))&0x3fff
			var packet []byte
			if i < released {
				packet = refmqtt.Ack(refmqtt.PUBREL, id)
				want = append(want, fmt.Sprintf("PUBREL %#04x", id))
			} else {
				packet = refmqtt.Encode(&refmqtt.Packet{Type: refmqtt.PUBLISH, QoS: level, ID: id, Topic: "w", Payload: []byte{byte(i), byte(i >> 8)}})
				want = append(want, fmt.Sprintf("PUBLISH %#04x", id))
			}
			// (storage order: PUBRELs were saved after the PUBLISH records they replaced)
			seq := uint64(2 + i)
			if i < released {
				seq += uint64(n)
			}
			store[uint(id)] = storedRecord(packet, seq)
		}
		cfg := baseConfig()
		cfg.AtLeastOnceMax, cfg.ExactlyOnceMax = 16384, 16384
		h := newH(rt, "C02", sim.Options{Config: cfg, Adopt: true, Store: store, StoreFlavour: "memory"})
		defer func() { h.finish(true) }()
		h.Act("adopt a session with %d transfers of level %d pending (%d at the PUBREL stage), the oldest has identifier %#04x", n, level, released, space|first)
		if h.Fatal != nil || len(h.Warn) != 0 {
			h.Failf("AdoptSession of a full window: fatal %v, warnings %v", h.Fatal, h.Warn)
		}
		h.App.Step()
		h.SettleReader("first connect of the adopted client")
		if last, ok := h.App.Last(); ok && !h.App.InCall() && last.Err != nil {
			h.Failf("first ReadSlices of the adopted client failed in a healthy environment: %v", last.Err)
		}
		cs := h.AllConns()
		if len(cs) == 0 {
			h.Failf("the adopted client did not dial")
		}
		ps, rest, err := refmqtt.DecodeAll(cs[0].OutCopy())
		if err != nil || len(rest) != 0 || len(ps) == 0 {
			h.Failf("first connection of the adopted client: malformed or incomplete output (%v)", err)
		}
		var got []string
		for _, p := range ps[1:] {
			switch p.Type {
			case refmqtt.PUBLISH:
				got = append(got, fmt.Sprintf("PUBLISH %#04x", p.ID))
			case refmqtt.PUBREL:
				got = append(got, fmt.Sprintf("PUBREL %#04x", p.ID))
			}
		}
		if len(got) != len(want) {
			h.Failf("the adopted client resumed %d transfers, the store obliges it to %d (first %v … last %v; resumed: first %v)", len(got), len(want), head2(want, 2), tail2(want, 2), head2(got, 3))
		}
		for i := range want {
			if got[i] != want[i] {
				h.Failf("resumed transfer %d is %s, want %s (original order)", i, got[i], want[i])
			}
		}
		// a further publish of the level: ErrMax exactly when the window is full
		c := h.pub(level, false)
		h.MustPoll("publish on the adopted client returning", func() bool { return h.IsDone(c) })
		if full := n == 16384; full != isErr(c.Err, mqtt.ErrMax) {
			h.Failf("publish of level %d with %d of 16384 transfers pending returned %v", level, n, c.Err)
		}
		h.label("window-adopted-at-its-configured-limit")
	})
}

func head2(l []string, n int) []string {
	if len(l) < n {
		return l
	}
	return l[:n]
}

func tail2(l []string, n int) []string {
	if len(l) < n {
		return l
	}
	return l[len(l)-n:]
}
