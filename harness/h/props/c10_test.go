package props

import (
	"context"
	"errors"
	"fmt"
	"testing"
	"time"

	"github.com/pascaldekloe/mqtt"
	"pgregory.net/rapid"
	"verifh/refmqtt"
	"verifh/sim"
)

// C10 — the read routine never wedges: failed connections are left and redialed.
func TestC10NeverWedges(t *testing.T) {
	rapid.Check(t, func(rt *rapid.T) {
		cfg := baseConfig()
		cfg.ReconnectWaitMin = 2 * time.Millisecond
		cfg.ReconnectWaitMax = 16 * time.Millisecond
		effMin := cfg.ReconnectWaitMin
		if rapid.IntRange(0, 3).Draw(rt, "noMinimumWait") == 0 {
			cfg.ReconnectWaitMin, effMin = -1, 0 // (negative: no minimum; zero would mean the default of one second)
		}
		h := newH(rt, "C10", asVolatileSession(rt, sim.Options{Config: cfg}))
		nontrivial := false
		defer func() { h.finish(nontrivial) }()

		// --- the read routine's state when the failure strikes ---
		state := rapid.SampledFrom([]string{"parked-in-read", "holding-qos1", "holding-qos2", "holding-big", "own-ack-write-parked",
			"pubrel-write-parked", "dialing", "handshake", "resending", "foreign-writer-parked", "foreign-writer-parked", "skipping-dup-big", "holding-big-tail-outstanding", "connack-arrives-under-slow-save", "awaits-write-lock-for-pubcomp"}).Draw(rt, "readerState")
		h.Act("reader state %s", state)
		h.label("reader-state:" + state)
		var pending []*sim.Call
		silentHandshake := false
		switch state {
		case "dialing":
			h.ScriptDial(sim.DialOutcome{Kind: sim.DialPark})
			h.App.Step()
			h.MustPoll("dial parked", func() bool { return h.DialParked() > 0 })
		case "handshake":
			// (the broker may stay silent for good: PauseTimeout bounds the wait)
			silentHandshake = rapid.Bool().Draw(rt, "brokerStaysSilent")
			h.ScriptDial(sim.DialOutcome{Connack: &sim.ConnackPolicy{Kind: sim.ConnackHold}})
			h.App.Step()
			h.SettleReader("handshake outstanding")
		case "connack-arrives-under-slow-save":
			// the handshake completes while a publisher is inside a slow
			// Persistence.Save (it holds its sequence lock; connect wants it)
			h.ScriptDial(sim.DialOutcome{Connack: &sim.ConnackPolicy{Kind: sim.ConnackHold}})
			h.App.Step()
			h.SettleReader("handshake outstanding")
			h.Store.ParkNext('S')
			slow := h.pub(byte(rapid.IntRange(1, 2).Draw(rt, "slowLevel")), false)
			if h.Store.Parked() == 0 {
				h.Store.ClearParks()
			}
			if cur := h.Current(); cur != nil {
				h.Act("release CONNACK")
				cur.ReleaseConnack(0)
			}
			h.PollQuiet(quiet, func() bool { return false })
			h.Act("the slow Save completes")
			h.Store.Release()
			h.Store.ClearParks()
			h.SettleCall(slow)
			h.SettleReader("connect after the slow Save")
		case "resending":
			h.pub(1, false)
			h.pub(2, false)
			resendOff := rapid.IntRange(0, 12).Draw(rt, "resendOff")
			h.WithLock(func() {
				h.NextConnOpts = func(c *sim.Conn) {
					c.ArmWriteLocked(sim.WFault{Off: connectLen + resendOff, Kind: sim.WPark})
					h.NextConnOpts = nil
				}
			})
			h.App.Step()
			h.SettleReader("resend parked")
		default:
			h.App.Step()
			h.SettleReader("connect")
			switch state {
			case "holding-qos1":
				h.brokerSend(1, 10)
			case "holding-qos2":
				h.brokerSend(2, 10)
			case "holding-big":
				old := mqtt.VerifSetReadBufSize(128 * 1024)
				mqtt.VerifSetReadBufSize(old)
				h.brokerSend(1, old+100)
			case "holding-big-tail-outstanding":
				// the application holds a BigMessage which it does not read;
				// the tail of its payload has not arrived yet
				size := mqtt.VerifSetReadBufSize(128 * 1024)
				mqtt.VerifSetReadBufSize(size)
				h.App.ReadBig = func(int) bool { return false }
				cur := h.Current()
				var raw []byte
				var m *refmqtt.OutMsg
				h.WithLock(func() {
					m = h.Broker.NewMessage(byte(rapid.IntRange(0, 2).Draw(rt, "qos")), "big/tail", make([]byte, size+300), false, 0)
					raw = h.Broker.PublishBytes(m, cur.N)
				})
				short := rapid.IntRange(1, 250).Draw(rt, "outstanding")
				h.Act("the broker sends %q (%d bytes); the last %d bytes stay outstanding", m.Topic, len(raw), short)
				cur.Send(raw[:len(raw)-short])
				h.SettleReader("big message returned")
			case "skipping-dup-big":
				// an exactly-once message larger than the read buffer was
				// returned and ownership taken; the broker retransmits it and
				// the read routine is discarding the duplicate's payload, of
				// which the tail is still outstanding
				size := mqtt.VerifSetReadBufSize(128 * 1024)
				mqtt.VerifSetReadBufSize(size)
				h.App.ReadBig = func(int) bool { return false }
				cur := h.Current()
				m := h.brokerSend(2, size+300)
				if m == nil {
					h.Failf("VERIF-INFRA: no accepted connection right after connect")
				}
				h.App.Step()
				h.SettleReader("ownership taken")
				var dup []byte
				h.WithLock(func() { dup = h.Broker.PublishBytes(m, cur.N) })
				short := rapid.IntRange(1, 250).Draw(rt, "outstanding")
				h.Act("the broker retransmits %q; the last %d bytes stay outstanding", m.Topic, short)
				cur.Send(dup[:len(dup)-short])
				h.SettleReader("duplicate's payload outstanding")
			case "own-ack-write-parked":
				h.brokerSend(byte(rapid.IntRange(1, 2).Draw(rt, "qos")), 10)
				h.armWrite(rapid.IntRange(0, 3).Draw(rt, "off"), sim.WPark)
				h.App.Step() // flushes the acknowledgement: parks inside Write
				h.SettleReader("acknowledgement write parked")
			case "foreign-writer-parked":
				// another goroutine sits inside Write (the peer stopped
				// draining) and holds the write lock
				h.armWrite(rapid.IntRange(0, 5).Draw(rt, "off"), sim.WPark)
				pending = append(pending, h.pub(0, false))
			case "awaits-write-lock-for-pubcomp":
				// an inbound exactly-once message got as far as PUBREC; a
				// requester sits inside Write (it holds the write lock) when
				// the PUBREL comes in: the read routine queues up for the
				// lock with its PUBCOMP. Whatever happens to that writer, the
				// read routine must not wait for a reconnect: it is the one
				// to make it.
				if m := h.brokerSend(2, 10); m != nil {
					h.App.Step() // the message
					h.SettleReader("inbound exactly-once message")
					h.App.Step() // PUBREC goes out
					h.SettleReader("PUBREC flush")
					h.armWrite(rapid.IntRange(0, 5).Draw(rt, "off"), sim.WPark)
					pending = append(pending, h.pub(0, false))
					h.releaseAcks(1) // PUBREL
					h.PollQuiet(quiet, func() bool { return false })
				}
			case "pubrel-write-parked":
				c := h.pub(2, false)
				_ = c
				h.armWrite(rapid.IntRange(0, 3).Draw(rt, "off"), sim.WPark)
				h.releaseAcks(1) // PUBREC: the read routine answers with PUBREL and parks
			}
		}
		failure := rapid.SampledFrom([]string{"foreign-publish-write-fails", "foreign-subscribe-write-fails", "foreign-ping-write-fails",
			"foreign-persisted-write-fails", "read-reset", "read-eof", "mid-packet-stall", "own-write-fails", "silence", "read-fails-close-is-slow"}).Draw(rt, "failure")
		// requests which wait on this connection
		pinged := false
		for i := 0; i < rapid.IntRange(0, 2).Draw(rt, "waiting"); i++ {
			switch rapid.IntRange(0, 2).Draw(rt, "req") {
			case 0:
				pending = append(pending, h.sub(1, 1))
			case 1:
				// (overlapping Pings were excluded while finding F7 was open;
				// a second one gets ErrMax or the slot, both fine)
				if pinged || failure == "foreign-ping-write-fails" {
					h.label("overlapping-pings")
				}
				pinged = true
				pending = append(pending, h.ping())
			case 2:
				pending = append(pending, h.unsub(1))
			}
		}

		// --- placement between the steps of write / toOffline / connect ---
		gate := rapid.SampledFrom([]string{"", "", "write.err", "write.unlock", "offline.enter", "offline.break", "connect.locked", "connect.resend", "lockwrite.wait"}).Draw(rt, "gate")
		if gate != "" {
			h.ArmGate(gate)
			h.Act("gate %s", gate)
		}

		// --- the failure ---
		h.Act("failure %s", failure)
		h.label("failure:" + failure)
		c := h.Current()
		foreign := false
		switch failure {
		case "foreign-publish-write-fails", "foreign-subscribe-write-fails", "foreign-ping-write-fails", "foreign-persisted-write-fails":
			foreign = true
			if c != nil {
				c.ArmWrite(sim.WFault{Off: c.OutLen() + rapid.IntRange(0, 4).Draw(rt, "cut"), Kind: rapid.SampledFrom([]int{sim.WReset, sim.WTimeout}).Draw(rt, "wkind")})
				// a parked writer (the read routine itself) goes first
				for c.ReleaseWrite() {
				}
			}
			switch failure {
			case "foreign-publish-write-fails":
				pending = append(pending, h.pub(0, false))
			case "foreign-subscribe-write-fails":
				pending = append(pending, h.sub(1, 1))
			case "foreign-ping-write-fails":
				pending = append(pending, h.ping())
			case "foreign-persisted-write-fails":
				h.pub(1, false)
			}
		case "read-fails-close-is-slow":
			// the read routine notices the failure itself; closing the
			// connection takes a while, during which a writer which held the
			// lock completes and a new request goes out on the connection:
			// it must be released by this very loss like the earlier ones
			if c != nil && c.Accepted() {
				c.ParkClose()
				// (the peer half-closed: reading ends, writes are still taken)
				c.ArmRead(sim.RFault{Off: c.InEnqueued(), Kind: sim.REOF})
				if !h.App.InCall() {
					h.App.Step()
				}
				h.PollQuiet(quiet, func() bool { return c.CloseParked() })
				if c.CloseParked() {
					for c.ReleaseWrite() {
					}
					h.PollQuiet(quiet, func() bool { return false })
					pending = append(pending, h.sub(1, 1))
					h.label("request-issued-while-the-failed-connection-is-being-closed")
				}
				c.ReleaseClose()
			}
		case "read-reset":
			if c != nil {
				c.Break(false)
			}
		case "read-eof":
			if c != nil {
				c.Break(true)
			}
		case "mid-packet-stall":
			if c != nil && c.Accepted() {
				// half a packet, then silence until PauseTimeout passes
				// (inside the body, or inside the remaining-length bytes)
				c.Send(rapid.SampledFrom([][]byte{{0x32, 0x10, 0x00}, {0x30, 0x80}, {0x30, 0x80, 0x80}, {0x30, 0xff, 0xff, 0xff}, {0x32, 0x85, 0x01, 0x00, 0x03, 'a'}}).Draw(rt, "stalledPrefix"))
			}
		case "own-write-fails":
			if c != nil {
				c.ArmWrite(sim.WFault{Off: c.OutLen() + rapid.IntRange(0, 3).Draw(rt, "cut"), Kind: sim.WReset})
				for c.ReleaseWrite() {
				}
			}
		}
		if foreign && state != "parked-in-read" || gate != "" {
			nontrivial = true
		}
		h.PollQuiet(quiet, func() bool { return false })
		if state == "foreign-writer-parked" && gate == "" && (failure == "read-reset" || failure == "read-eof" || failure == "mid-packet-stall") {
			// The read routine notices the failure on its own. It must give
			// the connection up although a writer is stuck in Write: closing
			// it is what interrupts that writer. Nothing else releases it here.
			nontrivial = true
			for i := 0; i < 3 && h.WritersParkedAny(); i++ {
				h.App.Step()
				h.MustPoll("ReadSlices returning, waiting for input, or the parked writer being interrupted", func() bool {
					return !h.WritersParkedAny() || h.ReaderWaiting() || !h.App.InCall()
				})
				h.ExpireStalledRead()
				h.PollQuiet(quiet, func() bool { return !h.WritersParkedAny() })
			}
			if h.WritersParkedAny() {
				h.MustPoll("the writer which is stuck inside Write being interrupted by the read routine closing the failed connection", func() bool { return !h.WritersParkedAny() })
			}
		}

		// --- failed connects before one succeeds ---
		fails := rapid.IntRange(0, 4).Draw(rt, "failedConnects")
		if fails >= 2 {
			nontrivial = true
		}
		var script []sim.DialOutcome
		resendFails := 0
		for i := 0; i < fails; i++ {
			switch rapid.IntRange(0, 5).Draw(rt, "how") {
			case 5:
				// dial and handshake pass, then the connection dies right
				// behind the CONNECT: with transfers pending, the write of
				// the retransmission fails. A failed attempt like the others.
				script = append(script, sim.DialOutcome{WFaults: []sim.WFault{{Off: connectLen + rapid.IntRange(0, 3).Draw(rt, "resendCut"), Kind: rapid.SampledFrom([]int{sim.WReset, sim.WTimeout}).Draw(rt, "resendFault")}}})
				resendFails++
			case 4:
				// a Dialer of its own making: it raced two addresses and
				// cancelled the loser, or ran into its own time limit
				script = append(script, sim.DialOutcome{Kind: sim.DialErr, Err: rapid.SampledFrom([]error{
					fmt.Errorf("dial backup address: %w", context.Canceled),
					context.Canceled, // (its own context, not the client's)
					fmt.Errorf("dial: %w", context.DeadlineExceeded),
					context.DeadlineExceeded,
				}).Draw(rt, "dialerError")})
			case 0:
				script = append(script, sim.DialOutcome{Kind: sim.DialErr})
			case 1:
				script = append(script, sim.DialOutcome{Connack: &sim.ConnackPolicy{Kind: sim.ConnackAuto, Code: byte(rapid.IntRange(1, 5).Draw(rt, "code"))}})
			case 2:
				script = append(script, sim.DialOutcome{Connack: &sim.ConnackPolicy{Kind: sim.ConnackEOF}})
			case 3:
				script = append(script, sim.DialOutcome{Connack: &sim.ConnackPolicy{Kind: sim.ConnackRaw, Raw: []byte{0x20, 2, 0x40, 0}}})
			}
		}
		h.Act("then %d failed connects", fails)
		if resendFails > 0 {
			h.label("failed-connect:dies-behind-the-handshake")
		}

		// --- the application keeps calling ReadSlices ---
		useBackoff := rapid.Bool().Draw(rt, "useReadBackoff")
		dialsBefore := h.DialCount()
		releasedHeld := false
		rw := time.Duration(0)
		online := func() bool {
			c := h.Current()
			return c != nil && c.Accepted() && h.ReaderWaiting() && isClosedChan(h.Client.Online())
		}
		scripted := false
		for round := 0; ; round++ {
			if round > 40 {
				h.Failf("the application kept calling ReadSlices for %d rounds in an environment which lets connects succeed after %d failures, yet the client is not online", round, fails)
			}
			// open everything the scenario parked: the failure has struck
			if round == 1 && !releasedHeld {
				releasedHeld = true
				h.OpenAllGates()
				for h.ReleaseDial() {
				}
				for _, c := range h.AllConns() {
					for c.ReleaseWrite() {
					}
					if c.AliveNow() && !c.Accepted() && !silentHandshake {
						c.Break(false) // a held handshake never completes
					}
				}
				h.PollQuiet(quiet, func() bool { return false })
			}
			started := h.App.Step()
			h.MustPoll("ReadSlices returning or waiting for input (never wedged)", func() bool {
				return h.ReaderWaiting() || !h.App.InCall() || h.DialParked() > 0 || len(h.ParkedGates()) > 0 || h.WritersParkedAny()
			})
			if h.ExpireStalledRead() {
				continue
			}
			if h.App.InCall() {
				if h.ReaderWaiting() {
					if cur := h.Current(); cur != nil && cur.Accepted() && round >= 1 {
						// waits for input on a live, accepted connection; make
						// sure that is where things come to rest
						if !h.PollQuiet(quiet, func() bool { return !h.ReaderWaiting() || h.Current() != cur }) {
							break
						}
					}
					// the connection it waits on is dead or stalls
					continue
				}
				continue // parked at something the next round opens
			}
			_ = started
			last, _ := h.App.Last()
			if last.Err == nil || last.Big {
				continue // a message
			}
			// An error from ReadSlices which left no live connection: the
			// client is down until the next call. Online must not be
			// released in that state, Offline must be.
			if h.Current() == nil && !errors.Is(last.Err, mqtt.ErrClosed) {
				if isClosedChan(h.Client.Online()) {
					h.Failf("ReadSlices returned %q and there is no connection, yet Online is released", last.Err)
				}
				if !isClosedChan(h.Client.Offline()) {
					h.Failf("ReadSlices returned %q and there is no connection, yet Offline is not released", last.Err)
				}
			}
			// after the first loss the scripted failures apply
			if !scripted {
				scripted = true
				h.ScriptDial(script...)
			}
			// ReadBackoff contract
			if useBackoff {
				dials := h.DialCount()
				connLoss := h.Current() == nil // the error left no live connection (L6)
				start := time.Now()
				ch := h.Client.ReadBackoff(last.Err)
				switch {
				case errors.Is(last.Err, mqtt.ErrClosed):
					if ch != nil {
						h.Failf("ReadBackoff(%v) returned a channel, want nil for ErrClosed", last.Err)
					}
				case ch == nil:
					h.Failf("ReadBackoff(%v) returned nil for a non-fatal error", last.Err)
				default:
					want := rw
					if want < effMin {
						want = effMin
					}
					if want > cfg.ReconnectWaitMax {
						want = cfg.ReconnectWaitMax
					}
					if mqtt.IsConnectionRefused(last.Err) {
						want = cfg.ReconnectWaitMax
					} else if connLoss {
						rw = want * 2
					}
					// the configured maximum bounds the idle (measured twice before
					// it counts: a time budget alone is no oracle on a busy machine)
					const slack = 600 * time.Millisecond
					select {
					case <-ch:
					case <-time.After(cfg.ReconnectWaitMax + slack):
						again := time.Now()
						select {
						case <-h.Client.ReadBackoff(last.Err):
						case <-time.After(cfg.ReconnectWaitMax + slack):
						}
						if d := time.Since(again); d >= cfg.ReconnectWaitMax+slack {
							h.Failf("ReadBackoff(%v): the channel did not close within %v, twice, with ReconnectWaitMin %v and ReconnectWaitMax %v", last.Err, cfg.ReconnectWaitMax+slack, cfg.ReconnectWaitMin, cfg.ReconnectWaitMax)
						}
						select {
						case <-ch:
						case <-time.After(2 * time.Second):
						}
					}
					// (an attempt which dies behind the handshake may have been a
					// success when nothing was to be resent: the ramp-up starts over)
					if el := time.Since(start); connLoss && resendFails == 0 && el < want-500*time.Microsecond {
						h.Failf("ReadBackoff(%v): the channel closed after %v, the documented idle is at least %v (min %v, max %v, %d-th consecutive failure)", last.Err, el, want, effMin, cfg.ReconnectWaitMax, round)
					}
				}
				_ = dials
			}
		}
		if !online() {
			h.Failf("the read routine waits for input on an accepted connection, yet Online is not released")
		}
		// every request pending at the failure returned
		h.SetAutoAck(true)
		h.answerIfOwed()
		for _, c := range pending {
			h.keepReadingUntil(fmt.Sprintf("call %d %s (pending at the failure) returning", c.N, c.Name), func() bool { return h.IsDone(c) })
		}
		// the client serves requests again
		if h.DialCount() > dialsBefore {
			h.label("redialed")
		}
		// A probe Ping, answered by the broker, succeeds. (After a failed PUBREL
		// write the PUBREL goes out twice on the next connection, the broker
		// answers twice and the client resets once more on the second PUBCOMP —
		// observation O2 of DESIGN.md, not a wedge — so the probe may need a
		// further connection.)
		ok := false
		for attempt := 0; attempt < 4 && !ok; attempt++ {
			for round := 0; round < 10; round++ {
				if cur := h.Current(); cur != nil && cur.Accepted() && h.ReaderWaiting() {
					break
				}
				h.App.Step()
				h.MustPoll("ReadSlices returning or waiting for input", func() bool { return h.ReaderWaiting() || !h.App.InCall() })
				h.ExpireStalledRead()
			}
			for _, c := range pending {
				if c.Name == "ping" {
					h.keepReadingUntil("the earlier Ping returning", func() bool { return h.IsDone(c) })
				}
			}
			probe := h.Go("probe-ping", &Req{Kind: "ping"}, func() (<-chan error, error) { return nil, h.Client.Ping(nil) })
			h.MustPoll("probe Ping returning", func() bool { return h.IsDone(probe) })
			ok = probe.Err == nil
			if !ok && !isErr(probe.Err, mqtt.ErrBreak, mqtt.ErrSubmit, mqtt.ErrDown, mqtt.ErrMax) {
				h.Failf("after recovery a Ping returned %v", probe.Err)
			}
			h.PollQuiet(quiet, func() bool { return false })
		}
		if !ok {
			h.Failf("after recovery four Pings in a row, each answered by the broker, failed: the client does not serve requests again")
		}
		noPanics(h)
		h.checkWire()
		h.checkLeftAfterError()
	})
}

// checkLeftAfterError: once ReadSlices reported an error from a connection (no
// Persistence fault is in play in C10, and a BigMessage is no error), that
// connection has failed as far as the client is concerned: it is left, and
// no later ReadSlices reads from it ("the failure is noticed … the next
// ReadSlices dials again").
func (h *H) checkLeftAfterError() {
	events := h.Events()
	lastConn := 0 // connection the read routine used last
	failedAt := map[int]int{}
	failedErr := map[int]string{}
	for _, e := range events {
		switch e.Kind {
		case sim.EvRead, sim.EvReadPark, sim.EvReadErr:
			if at, ok := failedAt[e.Conn]; ok {
				h.Failf("ReadSlices reported %q at event %d while reading from conn %d, yet a later ReadSlices goes on reading from that connection (event %d) instead of dialing again", failedErr[e.Conn], at, e.Conn, e.Seq)
			}
			lastConn = e.Conn
		case sim.EvDialRet:
			lastConn = 0
		case sim.EvAppRet:
			r := h.App.Result(e.N)
			if r.Err != nil && !r.Big && lastConn != 0 && !errors.Is(r.Err, mqtt.ErrClosed) {
				failedAt[lastConn] = e.Seq
				failedErr[lastConn] = r.Err.Error()
			}
		}
	}
}

// answerIfOwed releases what the broker owes (a pending request may simply be
// waiting for its answer on the new connection); it reports false so that
// polling goes on.
func (h *H) answerIfOwed() bool {
	if c := h.Current(); c != nil {
		h.WithLock(func() { h.FlushOwedLocked(c) })
	}
	return false
}

// keepReadingUntil lets the application call ReadSlices again and again (as
// the properties presuppose) until the condition holds; it fails when that
// does not happen within a bounded number of invocations.
func (h *H) keepReadingUntil(what string, cond func() bool) {
	for round := 0; round < 60; round++ {
		if cond() {
			return
		}
		h.App.Step()
		h.MustPoll("ReadSlices returning or waiting for input", func() bool { return cond() || h.ReaderWaiting() || !h.App.InCall() })
		if cond() {
			return
		}
		if h.ExpireStalledRead() {
			continue
		}
		if h.ReaderWaiting() {
			// nothing more will happen by reading alone
			if h.PollQuiet(100*time.Millisecond, cond) {
				return
			}
			h.Failf("%s did not happen although the application keeps reading and the read routine waits for input on a healthy connection", what)
		}
	}
	h.Failf("%s did not happen within 60 ReadSlices invocations", what)
}
