package props

import (
	"bytes"
	"errors"
	"fmt"
	"os"
	"strings"
	"testing"
	"time"

	"github.com/pascaldekloe/mqtt"
	"pgregory.net/rapid"
	"verifh/refmqtt"
	"verifh/sim"
	"verifh/stats"
)

func TestMain(m *testing.M) {
	code := m.Run()
	stats.Flush()
	os.Exit(code)
}

var thorough = os.Getenv("VERIF_TIER") == "thorough"

// Req describes a request issued by the harness; it sits in Call.Meta.
type Req struct {
	Kind    string // pub0 pub1 pub2 sub unsub ping disconnect close
	Topic   string
	Payload []byte
	QoS     byte
	Retain  bool
	Filters []string
	Level   byte
	Quit    string // nil open closed
	// filled by oracles
	ID        uint16
	FirstConn int
}

const clientID = "verif-client"

// baseConfig is the Config most histories run with. PauseTimeout is an hour:
// real time never drives a fault, expiries are scripted.
func baseConfig() mqtt.Config {
	return mqtt.Config{
		PauseTimeout:     time.Hour,
		AtLeastOnceMax:   8,
		ExactlyOnceMax:   8,
		ReconnectWaitMin: time.Millisecond,
		ReconnectWaitMax: 4 * time.Millisecond,
	}
}

// H bundles a world with the helpers the state machines share.
type H struct {
	slowDrain bool // drain over a link whose write deadlines keep expiring after progress
	*sim.World
	rt     *rapid.T
	prop   string
	nTopic int
	// (the next publish gets this topic / an empty payload: emptyPayloadCut)
	forceTopic string
	forceEmpty bool
	finishCase bool // the case ended early (inbound cases)
	labels     map[string]bool
	genBase    []*sim.World // earlier process generations
	// acceptances in order, per level (Call pointers)
	accepted [3][]*sim.Call
	// transfers pending when this generation adopted the session
	inherited []*Msg
	gen       int
	// broker session this generation started with
	brokerInit refmqtt.Snapshot
	// requests of synthetic records (sessions positioned at the identifier wrap)
	extraReqs []*Req
	// exactly-once identifiers whose ownership was taken before this generation (C04)
	inheritedOwned map[uint16]bool
	// the case closes the client: ErrClosed on exchanges is expected
	closing bool
	born    time.Time
}

func newH(rt *rapid.T, prop string, o sim.Options) *H {
	o.Prop = prop
	if o.ClientID == "" {
		o.ClientID = clientID
	}
	// what really holds the records behind the recording Persistence double:
	// its own map, the library's in-memory Persistence (VolatileSession), or
	// mqtt.FileSystem on a scratch directory
	if o.StoreFlavour == "" {
		o.StoreFlavour = rapid.SampledFrom([]string{"memory", "memory", "memory", "memory", "memory", "volatile", "volatile", "filesystem"}).Draw(rt, "persistenceBehindTheDouble")
	}
	w := sim.New(rt, o)
	plainRecords = w.PlainRecords
	h := &H{World: w, rt: rt, prop: prop, labels: map[string]bool{}, born: time.Now()}
	if w.Store.Flavour != "memory" {
		h.labels["records-held-by-the-library's-"+w.Store.Flavour+"-persistence"] = true
	}
	w.WithLock(func() { h.brokerInit = w.Broker.Snapshot() })
	if w.AdoptHung {
		h.Failf("hang: AdoptSession did not return; no Persistence operation for 4 s (AtLeastOnceMax %d, ExactlyOnceMax %d)", w.AdoptHungLimits[0], w.AdoptHungLimits[1])
	}
	// connections behave like net.Pipe or like TCP where the two differ
	w.PipeLike = rapid.Bool().Draw(rt, "pipeLikeConnections")
	return h
}

func (h *H) label(l string) { h.labels[l] = true }

func (h *H) labelList() []string {
	var l []string
	for k := range h.labels {
		l = append(l, k)
	}
	return l
}

// finish records the case and tears the world down.
func (h *H) finish(nontrivial bool) {
	if d := time.Since(h.born); d > 2*time.Second {
		stats.For(h.prop).Label("case-slower-than-2s", 1)
		if os.Getenv("VERIF_SLOW") != "" {
			fmt.Fprintf(os.Stderr, "SLOW CASE %v\n%s\n", d, strings.Join(h.Script, "\n"))
		}
	}
	stats.For(h.prop).Case(strings.Join(h.Script, "\n"), nontrivial, h.labelList()...)
	if !h.Shutdown(5 * time.Second) {
		stats.For(h.prop).Label("teardown-incomplete", 1)
	}
}

// ---- generators ----

func (h *H) topic() string {
	h.nTopic++
	if h.forceTopic != "" {
		return h.forceTopic
	}
	class := rapid.SampledFrom([]int{0, 0, 0, 1, 2, 3}).Draw(h.rt, "topicClass")
	base := fmt.Sprintf("t%d", h.nTopic)
	switch class {
	case 1:
		return base + "/" + strings.Repeat("x", rapid.IntRange(1, 40).Draw(h.rt, "topicPad"))
	case 2: // around the pooled 128-byte buffer
		return base + "/" + strings.Repeat("y", rapid.IntRange(110, 135).Draw(h.rt, "topicPad")-len(base))
	case 3: // multi-byte UTF-8
		return base + "/é€𝄞"
	}
	return base
}

func (h *H) payload() []byte {
	if h.forceEmpty {
		return []byte{}
	}
	class := rapid.SampledFrom([]int{0, 1, 2, 2, 2, 2, 3, 3, 4}).Draw(h.rt, "payloadClass")
	var n int
	switch class {
	case 0:
		n = 0
	case 1:
		n = 1
	case 2:
		n = rapid.IntRange(2, 200).Draw(h.rt, "payloadLen")
	case 3:
		n = rapid.IntRange(100, 140).Draw(h.rt, "payloadLen")
	case 4:
		n = rapid.SampledFrom([]int{16383, 16384, 20000}).Draw(h.rt, "payloadLen")
	}
	b := make([]byte, n)
	seed := byte(h.nTopic)
	for i := range b {
		b[i] = seed + byte(i*7)
	}
	return b
}

// ---- actions ----

// connectFirst starts the application and waits for the first connect attempt to finish.
func (h *H) appStep(what string) {
	before := h.App.NResults()
	h.App.Step()
	h.SettleReader(what)
	// The documented read loop waits on ReadBackoff after an error and ends
	// when that is nil: nil is for ErrClosed only, or the loop (and with it
	// every retransmission) ends on an error which a retry would get over.
	if h.Client != nil && h.App.NResults() > before {
		if r := h.App.Result(before); r.Err != nil && !r.Big && !errors.Is(r.Err, mqtt.ErrClosed) && h.Client.ReadBackoff(r.Err) == nil {
			h.Failf("ReadSlices returned %q and ReadBackoff gives nil for it: the documented read loop ends although the client is not closed", r.Err)
		}
	}
}

func (h *H) pub(qos byte, retain bool) *sim.Call {
	topic, payload := h.topic(), h.payload()
	req := &Req{Kind: fmt.Sprintf("pub%d", qos), Topic: topic, Payload: payload, QoS: qos, Retain: retain, Quit: "nil"}
	h.Act("pub%d retain=%t topic=%q len=%d", qos, retain, topic, len(payload))
	c := h.Go(req.Kind, req, func() (<-chan error, error) {
		cl := h.Client
		switch {
		case qos == 0 && !retain:
			return nil, cl.Publish(nil, payload, topic)
		case qos == 0:
			return nil, cl.PublishRetained(nil, payload, topic)
		case qos == 1 && !retain:
			return cl.PublishAtLeastOnce(payload, topic)
		case qos == 1:
			return cl.PublishAtLeastOnceRetained(payload, topic)
		case !retain:
			return cl.PublishExactlyOnce(payload, topic)
		default:
			return cl.PublishExactlyOnceRetained(payload, topic)
		}
	})
	h.SettleCall(c)
	h.PollExchanges()
	if qos != 0 && h.IsDone(c) && c.Err == nil {
		h.accepted[qos] = append(h.accepted[qos], c)
	}
	return c
}

func (h *H) sub(level byte, nfilters int) *sim.Call {
	h.nTopic++
	var filters []string
	pad := strings.Repeat("p", rapid.SampledFrom([]int{0, 0, 10, 40, 120}).Draw(h.rt, "filterPad"))
	for i := 0; i < nfilters; i++ {
		filters = append(filters, fmt.Sprintf("f%d/%d/%s#", h.nTopic, i, pad))
	}
	req := &Req{Kind: "sub", Filters: filters, Level: level, Quit: "nil"}
	h.Act("sub level=%d filters=%q", level, filters)
	c := h.Go("sub", req, func() (<-chan error, error) {
		switch level {
		case 0:
			return nil, h.Client.SubscribeLimitAtMostOnce(nil, filters...)
		case 1:
			return nil, h.Client.SubscribeLimitAtLeastOnce(nil, filters...)
		}
		return nil, h.Client.Subscribe(nil, filters...)
	})
	h.SettleCall(c)
	return c
}

func (h *H) unsub(nfilters int) *sim.Call {
	h.nTopic++
	var filters []string
	pad := strings.Repeat("q", rapid.SampledFrom([]int{0, 0, 10, 40, 120}).Draw(h.rt, "filterPad"))
	for i := 0; i < nfilters; i++ {
		filters = append(filters, fmt.Sprintf("u%d/%d/%s+", h.nTopic, i, pad))
	}
	req := &Req{Kind: "unsub", Filters: filters, Quit: "nil"}
	h.Act("unsub filters=%q", filters)
	c := h.Go("unsub", req, func() (<-chan error, error) {
		return nil, h.Client.Unsubscribe(nil, filters...)
	})
	h.SettleCall(c)
	return c
}

func (h *H) ping() *sim.Call {
	h.Act("ping")
	c := h.Go("ping", &Req{Kind: "ping", Quit: "nil"}, func() (<-chan error, error) {
		return nil, h.Client.Ping(nil)
	})
	h.SettleCall(c)
	return c
}

// releaseAcks releases up to n owed responses on the current connection, in order.
func (h *H) releaseAcks(n int) int {
	c := h.Current()
	if c == nil {
		return 0
	}
	done := 0
	var names []string
	for ; done < n; done++ {
		o, ok := c.Release(0)
		if !ok {
			break
		}
		names = append(names, o.String())
	}
	h.Act("releaseAcks n=%d → %v", n, names)
	h.settleInbound()
	return done
}

// settleInbound waits until the read routine consumed what it can, given
// that the application may not be reading at all.
func (h *H) settleInbound() {
	h.SettleReader("inbound bytes")
	h.PollExchanges()
}

// brokerSend lets the broker publish to the client.
func (h *H) brokerSend(qos byte, payloadLen int) *refmqtt.OutMsg {
	c := h.Current()
	if c == nil || !c.Accepted() {
		return nil
	}
	h.nTopic++
	topic := fmt.Sprintf("in%d", h.nTopic)
	payload := make([]byte, payloadLen)
	for i := range payload {
		payload[i] = byte(h.nTopic) ^ byte(i*13)
	}
	var m *refmqtt.OutMsg
	h.WithLock(func() {
		// (a writer of the client may have lost the connection meanwhile)
		if c = h.CurrentLocked(); c == nil || !c.State.Accepted {
			return
		}
		m = h.Broker.NewMessage(qos, topic, payload, false, 0)
		c.SendLocked(h.Broker.PublishBytes(m, c.N))
	})
	if m == nil {
		return nil
	}
	h.Act("brokerSend qos=%d topic=%q len=%d id=%#04x", qos, topic, payloadLen, m.ID)
	h.settleInbound()
	return m
}

// armWrite arms a write fault d bytes ahead on the current connection.
func (h *H) armWrite(d int, kind int) {
	c := h.Current()
	if c == nil {
		return
	}
	off := c.OutLen() + d
	c.ArmWrite(sim.WFault{Off: off, Kind: kind})
	h.Act("armWrite conn=%d off=+%d kind=%s", c.N, d, wfaultNames[kind])
}

var wfaultNames = map[int]string{sim.WTimeoutProgress: "timeout-progress", sim.WTimeout: "timeout", sim.WReset: "reset", sim.WPark: "park"}

// ---- drain ----

// drain ends a case the way the properties describe a healthy environment:
// faults off, every dial succeeds, the broker releases everything it owes and
// retransmits, the application keeps reading. It returns once nothing is owed
// and the predicate holds, or fails with a hang.
func (h *H) drain(done func() bool) {
	h.Act("drain")
	h.ClearDialScript()
	h.Store.ClearFaults()
	h.SetAutoAck(true)
	for h.Store.Release() {
	}
	for h.ReleaseDial() {
	}
	h.OpenAllGates()
	h.WithLock(func() {
		h.NextConnOpts = nil
		for _, c := range h.Conns {
			c.ClearFaultsLocked()
		}
	})
	for _, c := range h.AllConns() {
		for c.ReleaseWrite() {
		}
		// a connection which swallowed bytes cannot go on
		if c.Blackholed() {
			c.Break(false)
		}
	}
	if h.slowDrain {
		// A link which is slow yet steady: write deadlines keep expiring, each
		// time after progress. That is no loss of the connection; everything
		// must go out all the same, however many packets the backlog has.
		arm := func(c *sim.Conn, from int) {
			for k := 0; k < 400; k++ {
				c.ArmWriteLocked(sim.WFault{Off: from + 1 + 19*k, Kind: sim.WTimeoutProgress})
			}
		}
		h.Act("the link is slow yet steady from here on: write deadlines expire after progress every 19 bytes")
		h.WithLock(func() {
			h.NextConnOpts = func(c *sim.Conn) { arm(c, connectLen) }
			if c := h.CurrentLocked(); c != nil {
				arm(c, len(c.Out))
			}
		})
		h.label("drain-over-slow-steady-link")
	}
	if c := h.Current(); c != nil {
		h.WithLock(func() { h.FlushOwedLocked(c) })
	}
	for round := 0; ; round++ {
		if round > 50 {
			h.Failf("drain does not converge: the client keeps losing healthy connections")
		}
		h.App.Step()
		h.MustPoll("read routine at rest during drain", h.ReaderSettled)
		if h.ExpireStalledRead() {
			continue // a Read with a deadline and no input: time passes
		}
		if h.PollQuiet(100*time.Millisecond, func() bool { h.PollExchanges(); return done() }) {
			return
		}
		if !h.App.InCall() {
			continue // returned a message or an error; read on
		}
		// (before the verdict: a quiet period as long as the hang oracle's,
		// not the 100 ms which suffice on the way)
		if h.PollQuiet(4*time.Second, func() bool { h.PollExchanges(); return done() || !h.App.InCall() }) {
			if done() {
				return
			}
			continue
		}
		h.Failf("drain: the environment is healthy and the read routine waits for input, yet the awaited condition does not hold: %s", h.pendingSummary())
	}
}

func (h *H) pendingSummary() string {
	var b strings.Builder
	for _, c := range h.Calls {
		if !h.IsDone(c) {
			fmt.Fprintf(&b, "call %d %s not returned; ", c.N, c.Name)
		} else if c.Exch != nil && c.Err == nil && !c.ExchDone {
			fmt.Fprintf(&b, "call %d %s exchange open (errs %v); ", c.N, c.Name, c.ExchErrs)
		}
	}
	if c := h.Current(); c != nil {
		fmt.Fprintf(&b, "owed on conn %d: %v", c.N, c.Owed())
	} else {
		b.WriteString("no live connection")
	}
	return b.String()
}

// allExchangesClosed tells whether every request returned and every accepted
// persisted publish completed.
func (h *H) allExchangesClosed() bool {
	ok := true
	h.WithLock(func() {
		for _, c := range h.Calls {
			if !c.Done || (c.Exch != nil && c.Err == nil && !c.ExchDone) {
				ok = false
				return
			}
		}
	})
	return ok
}

// ---- wire oracle (C08 core, reused as a sanity net elsewhere) ----

// checkWire verifies that the byte log of every connection is a sequence of
// complete, well-formed packets which match issued requests, followed by at
// most one incomplete packet.
func (h *H) checkWire() {
	for _, c := range h.AllConns() {
		out := c.OutCopy()
		packets, rest, err := refmqtt.DecodeAll(out)
		if err != nil {
			h.Failf("conn %d: outbound byte log does not parse after %d packets: %v; bytes at fault: % x", c.N, len(packets), err, head(rest, 48))
		}
		off := 0
		for i, p := range packets {
			if why := h.matchPacket(c, i, p); why != "" {
				h.Failf("conn %d packet %d at offset %d (%s): %s; raw % x", c.N, i, off, p, why, head(p.Raw, 64))
			}
			if enc := refmqtt.Encode(p); !bytes.Equal(enc, p.Raw) {
				h.Failf("conn %d packet %d (%s) is not in canonical encoding: % x", c.N, i, p, head(p.Raw, 64))
			}
			off += len(p.Raw)
		}
		if len(rest) != 0 {
			// an incomplete packet: must be the prefix of a packet that matches
			if why := h.matchPrefix(rest); why != "" {
				h.Failf("conn %d: %d trailing bytes are not the start of any issued packet: %s; % x", c.N, len(rest), why, head(rest, 48))
			}
		}
		if n := c.WritesAfterFailure(); n != 0 {
			h.Failf("conn %d: %d Write calls after a failed Write on the same connection", c.N, n)
		}
	}
}

func head(b []byte, n int) []byte {
	if len(b) > n {
		return b[:n]
	}
	return b
}

func (h *H) findPub(topic string) *Req {
	for _, r := range h.extraReqs {
		if r.Topic == topic {
			return r
		}
	}
	for _, w := range h.worlds() {
		for _, c := range w.Calls {
			if r, ok := c.Meta.(*Req); ok && strings.HasPrefix(r.Kind, "pub") && r.Topic == topic {
				return r
			}
		}
	}
	return nil
}

func (h *H) worlds() []*sim.World { return append(append([]*sim.World(nil), h.genBase...), h.World) }

func (h *H) findFilters(kind string, first string) *Req {
	for _, c := range h.Calls {
		if r, ok := c.Meta.(*Req); ok && r.Kind == kind && len(r.Filters) != 0 && r.Filters[0] == first {
			return r
		}
	}
	return nil
}

func (h *H) matchPacket(c *sim.Conn, i int, p *refmqtt.Packet) string {
	if (i == 0) != (p.Type == refmqtt.CONNECT) {
		if i == 0 {
			return "first packet is not CONNECT"
		}
		return "CONNECT is not the first packet"
	}
	switch p.Type {
	case refmqtt.CONNECT:
		if p.Connect.ClientID != h.ClientIDWant() {
			return fmt.Sprintf("client identifier %q, want %q", p.Connect.ClientID, h.ClientIDWant())
		}
	case refmqtt.PUBLISH:
		r := h.findPub(p.Topic)
		if r == nil {
			return "no publish request has this topic"
		}
		if r.QoS != p.QoS || r.Retain != p.Retain {
			return fmt.Sprintf("level %d retain %t, requested level %d retain %t", p.QoS, p.Retain, r.QoS, r.Retain)
		}
		if !bytes.Equal(r.Payload, p.Payload) {
			return fmt.Sprintf("payload differs from the request (%d vs %d bytes)", len(p.Payload), len(r.Payload))
		}
		switch p.QoS {
		case 1:
			if p.ID&0xc000 != 0x8000 {
				return "identifier outside the at-least-once space"
			}
		case 2:
			if p.ID&0xc000 != 0xc000 {
				return "identifier outside the exactly-once space"
			}
		}
	case refmqtt.SUBSCRIBE:
		r := h.findFilters("sub", p.Filters[0])
		if r == nil {
			return "no subscribe request has this first filter"
		}
		if strings.Join(r.Filters, "\x00") != strings.Join(p.Filters, "\x00") {
			return "filters differ from the request"
		}
		for _, l := range p.Levels {
			if l != r.Level {
				return fmt.Sprintf("requested level %d, want %d", l, r.Level)
			}
		}
		if p.ID&0xe000 != 0x6000 {
			return "identifier outside the subscribe space"
		}
	case refmqtt.UNSUBSCRIBE:
		r := h.findFilters("unsub", p.Filters[0])
		if r == nil {
			return "no unsubscribe request has this first filter"
		}
		if strings.Join(r.Filters, "\x00") != strings.Join(p.Filters, "\x00") {
			return "filters differ from the request"
		}
		if p.ID&0xe000 != 0x4000 {
			return "identifier outside the unsubscribe space"
		}
	case refmqtt.PUBACK, refmqtt.PUBREC, refmqtt.PUBCOMP:
		if !h.brokerSentID(p.Type, p.ID) {
			return "acknowledges an identifier the broker never used at that level"
		}
	case refmqtt.PUBREL:
		if p.ID&0xc000 != 0xc000 {
			return "PUBREL identifier outside the exactly-once space"
		}
	case refmqtt.PINGREQ, refmqtt.DISCONNECT:
	default:
		return "a client must not send this packet type"
	}
	return ""
}

func (h *H) brokerSentID(typ byte, id uint16) bool {
	for _, w := range h.worlds() {
		for _, m := range w.Broker.Out {
			if m.ID == id && ((typ == refmqtt.PUBACK && m.QoS == 1) || (typ != refmqtt.PUBACK && m.QoS == 2)) {
				return true
			}
		}
	}
	return false
}

// matchPrefix: rest is an incomplete packet; it must be a prefix of the
// encoding of something issued. Checked structurally: the header must be
// complete enough to tell the type, and what is present must agree.
func (h *H) matchPrefix(rest []byte) string {
	typ := rest[0] >> 4
	switch typ {
	case refmqtt.CONNECT, refmqtt.PUBLISH, refmqtt.SUBSCRIBE, refmqtt.UNSUBSCRIBE, refmqtt.PUBACK, refmqtt.PUBREC,
		refmqtt.PUBREL, refmqtt.PUBCOMP, refmqtt.PINGREQ, refmqtt.DISCONNECT:
	default:
		return fmt.Sprintf("packet type %d", typ)
	}
	if typ != refmqtt.PUBLISH {
		return ""
	}
	total, lb, _, err := refmqtt.PacketLen(rest)
	if err != nil {
		if err == refmqtt.ErrIncomplete {
			return ""
		}
		return err.Error()
	}
	body := rest[1+lb:]
	if len(body) < 2 {
		return ""
	}
	tl := int(body[0])<<8 | int(body[1])
	if len(body) < 2+tl {
		return ""
	}
	topic := string(body[2 : 2+tl])
	r := h.findPub(topic)
	if r == nil {
		return "PUBLISH prefix with a topic nobody requested"
	}
	hdr := 2 + tl
	if r.QoS != 0 {
		hdr += 2
	}
	if want := 1 + lb + hdr + len(r.Payload); want != total {
		return fmt.Sprintf("PUBLISH prefix announces %d bytes, the request makes %d", total, want)
	}
	if len(body) > hdr && !bytes.HasPrefix(r.Payload, body[hdr:]) {
		return "PUBLISH prefix payload differs from the request"
	}
	return ""
}

// wireHas tells whether a complete PUBLISH with the topic is on some wire.
func (h *H) wireHas(match func(p *refmqtt.Packet) bool) bool {
	for _, c := range h.AllConns() {
		packets, _, _ := refmqtt.DecodeAll(c.OutCopy())
		for _, p := range packets {
			if match(p) {
				return true
			}
		}
	}
	return false
}

func isErr(err error, targets ...error) bool {
	for _, t := range targets {
		if errors.Is(err, t) {
			return true
		}
	}
	return false
}

func noPanics(h *H) {
	if p := h.Panics(); len(p) != 0 {
		h.Failf("panic in client code: %s", p[0])
	}
}

const quiet = 1500 * time.Microsecond

// allPersistedDone tells whether every persisted publish returned and every
// accepted one completed.
func (h *H) allPersistedDone() bool {
	ok := true
	h.WithLock(func() {
		for _, c := range h.Calls {
			r, isReq := c.Meta.(*Req)
			if !isReq || (r.Kind != "pub1" && r.Kind != "pub2") {
				continue
			}
			if !c.Done || (c.Err == nil && !c.ExchDone) {
				ok = false
				return
			}
		}
	})
	return ok
}

// fataler is the part of testing.TB / rapid.T the pure checks need.
type fataler interface {
	Fatalf(format string, args ...interface{})
}

// violate fails a case of a check which runs without a sim world. The marker
// is what the driver turns into a VIOLATION line.
func violate(t fataler, prop, format string, args ...interface{}) {
	t.Fatalf("VERIF-VIOLATION property=%s: %s", prop, fmt.Sprintf(format, args...))
}

// outboundStoreEmpty tells whether no outbound record is left in the Persistence.
func (h *H) outboundStoreEmpty() bool {
	for k := range h.Store.Content() {
		if k >= 0x8000 && k <= 0xffff {
			return false
		}
	}
	return true
}

// releaseKind releases the oldest owed response of one drawn kind. Brokers owe
// order per kind of acknowledgement only (MQTT-4.6.0-2/3/4), not across kinds.
func (h *H) releaseKind(rt *rapid.T) bool {
	c := h.Current()
	if c == nil {
		return false
	}
	owed := c.Owed()
	var kinds []byte
	seen := map[byte]bool{}
	for _, o := range owed {
		if !seen[o.Kind] && o.Kind != refmqtt.CONNACK {
			seen[o.Kind] = true
			kinds = append(kinds, o.Kind)
		}
	}
	if len(kinds) == 0 {
		return false
	}
	kind := kinds[rapid.IntRange(0, len(kinds)-1).Draw(rt, "ackKind")]
	for i, o := range owed {
		if o.Kind == kind {
			c.Release(i)
			h.Act("release %s (oldest of its kind, %d owed)", o, len(owed))
			break
		}
	}
	h.settleInbound()
	return true
}

// asVolatileSession lets one case in five run on a session made the way
// VolatileSession makes it: the library's own map, no checksum layer. Only for
// checks which neither restart nor look into the layout of stored values.
func asVolatileSession(rt *rapid.T, o sim.Options) sim.Options {
	if rapid.IntRange(0, 4).Draw(rt, "likeVolatileSession") == 0 {
		o.StoreFlavour = "volatile-plain"
	}
	return o
}
