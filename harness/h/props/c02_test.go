package props

import (
	"fmt"
	"testing"
	"time"

	"github.com/pascaldekloe/mqtt"
	"pgregory.net/rapid"
	"verifh/stats"
)

// restartCase runs: a first-generation history, then for every selected stop
// point an adoption with the C02 assertions, continuation publishes, further
// stop/adopt generations for a share of them, and a final drain.
func restartCase(rt *rapid.T, prop string, levels []byte, pointLimit int) {
	cfg := baseConfig()
	cfg.AtLeastOnceMax = rapid.SampledFrom([]int{2, 3, 5, 16, 64, -1, 20000}).Draw(rt, "max1")
	cfg.ExactlyOnceMax = rapid.SampledFrom([]int{2, 3, 5, 16, 64, -1, 20000}).Draw(rt, "max2")
	// The first process may ask for a clean session (only its first connection
	// may carry the flag: a later one makes the broker forget its half of the
	// exactly-once handshakes). The processes which adopt the session do not.
	cfg0 := cfg
	cfg0.CleanSession = rapid.IntRange(0, 2).Draw(rt, "cleanSession") == 0
	h0 := runGen0(rt, prop, cfg0, levels, func(h *H, actions map[string]func(*rapid.T)) {
		h.Act("config AtLeastOnceMax=%d ExactlyOnceMax=%d CleanSession=%t", cfg.AtLeastOnceMax, cfg.ExactlyOnceMax, cfg0.CleanSession)
		if cfg0.CleanSession {
			h.label("clean-session-requested-by-the-first-process")
		}
		rt.Repeat(actions)
	})
	if rapid.Bool().Draw(rt, "drainFirstGeneration") {
		// the first generation gets to finish in a healthy environment;
		// the stop points then cover its recovery as well
		h0.drain(func() bool { return h0.allPersistedDone() && h0.outboundStoreEmpty() })
		noPanics(h0)
		h0.checkWire()
		h0.checkLifecycle(h0.messages())
		h0.checkDelivered(h0.messages(), h0.Broker)
	}
	h0.Shutdown(5 * time.Second)
	msgs0 := h0.messages()
	points, complete := stopPoints(rt, h0, pointLimit)

	nontrivial, gen2saved, adoptions := false, false, 0
	interrupted := false
	var summary []string
	for _, k := range points {
		for _, late := range []bool{false, true} {
			accepted := acceptedBefore(msgs0, k)
			// (1 in 4: a first AdoptSession runs into a transient Load error and
			// is simply tried again: nothing accepted may get lost over that)
			failLoad := 0
			if rapid.IntRange(0, 3).Draw(rt, "transientLoadErrorAtFirstTry") == 0 {
				failLoad = rapid.IntRange(1, 6).Draw(rt, "nthLoad")
			}
			// (1 in 5 of the others: a first AdoptSession with limits of 1 to 3, which
			// refuses when more is pending and must leave everything as it was)
			lowLimits := 0
			if failLoad == 0 && rapid.IntRange(0, 4).Draw(rt, "misconfiguredFirstTry") == 0 {
				lowLimits = rapid.IntRange(1, 3).Draw(rt, "lowLimits")
			}
			n, pend := h0.restart(restartOpts{K: k, Late: late, Config: cfg, PreAdoptFailLoad: failLoad, PreAdoptLimits: lowLimits})
			if lowLimits != 0 && n.PreAdoptFatal != nil {
				n.label("adopted-after-a-try-with-limits-too-low")
			}
			if n.PreAdoptRan && n.PreAdoptFatal != nil {
				n.label("adopted-at-the-second-try-after-a-Load-error")
			}
			adoptions++
			if len(pend) > 0 {
				nontrivial = true
			}
			for _, p := range pend {
				if p.Req.QoS == 2 && p.RecSentSeq != 0 {
					interrupted = true
				}
			}
			n.checkAdoption(pend)
			n.checkContinuation(pend)
			// more generations for a share of the stop points
			gens := rapid.SampledFrom([]int{0, 0, 1, 1, 2}).Draw(rt, "moreGenerations")
			for g := 0; g < gens; g++ {
				for i := 0; i < rapid.IntRange(0, 6).Draw(rt, "between"); i++ {
					switch rapid.IntRange(0, 5).Draw(rt, "act") {
					case 4, 5:
						n.App.Step()
						n.releaseKind(rt)
					case 0:
						n.pub(levels[rapid.IntRange(0, len(levels)-1).Draw(rt, "level")], false)
					case 1:
						n.releaseAcks(rapid.IntRange(1, 4).Draw(rt, "n"))
					case 2:
						if c := n.Current(); c != nil {
							n.Act("break conn=%d", c.N)
							c.Break(false)
							n.settleInbound()
						}
					case 3:
						n.Act("appStep")
						n.appStep("appStep")
					}
					n.checkWire()
					n.checkNoDoubleDelivery()
				}
				n.Shutdown(5 * time.Second)
				nops := n.Store.NOps()
				k2 := rapid.IntRange(0, nops).Draw(rt, "stopPoint2")
				msgsN := n.messages()
				for _, m := range msgsN {
					if !m.Inherited && m.SaveOp < k2 {
						accepted = append(accepted, m)
						gen2saved = true
					}
				}
				n2, pend2 := n.restart(restartOpts{K: k2, Late: rapid.Bool().Draw(rt, "late2"), Config: cfg})
				adoptions++
				n2.checkAdoption(pend2)
				n2.checkContinuation(pend2)
				n = n2
			}
			// everything saved by the last generation counts as accepted
			for _, m := range n.messages() {
				if !m.Inherited {
					accepted = append(accepted, m)
				}
			}
			n.drain(func() bool { return n.allPersistedDone() && n.outboundStoreEmpty() })
			noPanics(n)
			n.checkWire()
			n.checkLifecycle(n.messages())
			deliveredCheck(n, accepted)
			n.Shutdown(5 * time.Second)
			summary = append(summary, fmt.Sprintf("k=%d late=%t pending=%s gens=%d", k, late, describePending(pend), gens))
		}
	}
	if complete {
		stats.For(prop).InnerExhaustive(1)
		h0.label("all-stop-points-of-the-history")
	}
	if gen2saved {
		h0.label("generation>=2-with-records-saved-by-an-adopted-client")
	}
	if interrupted {
		h0.label("exactly-once-handshake-interrupted-by-stop")
	}
	stats.For(prop).Label("adoptions", adoptions)
	h0.Script = append(h0.Script, summary...)
	h0.finish(nontrivial)
}

func acceptedBefore(msgs []*Msg, k int) []*Msg {
	var l []*Msg
	for _, m := range msgs {
		if !m.Inherited && m.SaveOp < k {
			l = append(l, m)
		}
	}
	return l
}

// C02 — restart resumes exactly the unacknowledged set, at any stop point, repeatedly.
func TestC02Restart(t *testing.T) {
	limit := 24
	if thorough {
		limit = 64
	}
	rapid.Check(t, func(rt *rapid.T) { restartCase(rt, "C02", []byte{1, 2}, limit) })
}

// C03 — exactly-once publish: no PUBLISH after recorded PUBREC; PUBREL until PUBCOMP.
func TestC03ExactlyOnce(t *testing.T) {
	limit := 24
	if thorough {
		limit = 64
	}
	rapid.Check(t, func(rt *rapid.T) { restartCase(rt, "C03", []byte{2}, limit) })
}

var _ = mqtt.ErrDown
