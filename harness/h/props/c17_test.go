package props

import (
	"fmt"
	"strings"
	"testing"
	"time"

	"github.com/pascaldekloe/mqtt"
	"pgregory.net/rapid"
	"verifh/refmqtt"
	"verifh/sim"
)

func normMax(n int) int {
	if n < 0 || n > 0x3fff {
		return 0x4000
	}
	return n
}

// checkIdentifiers verifies the store-level invariants of C17 over the whole
// operation log of this generation: a PUBLISH is never saved under a key that
// is in use, the number of records per level never exceeds the limit, and
// identifiers are handed out consecutively (a refused or failed call does not
// consume one).
func (h *H) checkIdentifiers(cfg *mqtt.Config) (wrapped bool, peak [3]int) {
	limit := [3]int{0, normMax(cfg.AtLeastOnceMax), normMax(cfg.ExactlyOnceMax)}
	present := map[uint]bool{}
	count := [3]int{}
	last := [3]int{-1, -1, -1}
	for k, v := range h.Store.SnapshotAt(0) {
		if k < 0x8000 || k > 0xffff {
			continue
		}
		_ = v
		present[k] = true
		level := 1
		if k&0xc000 == 0xc000 {
			level = 2
		}
		count[level]++
	}
	for _, m := range h.inherited {
		level := int(m.Req.QoS)
		seq := int(m.ID & 0x3fff)
		// inherited are in order; the last one is the latest
		last[level] = seq
	}
	for i, op := range h.Store.OpsCopy() {
		if op.Err != nil || op.Key < 0x8000 || op.Key > 0xffff {
			continue
		}
		level := 1
		if op.Key&0xc000 == 0xc000 {
			level = 2
		}
		switch op.Kind {
		case 'S':
			if len(op.Val) < 13 {
				h.Failf("store operation %d saves %d bytes under %#x", i, len(op.Val), op.Key)
			}
			if op.Val[0]>>4 != refmqtt.PUBLISH {
				if !present[op.Key] {
					h.Failf("store operation %d saves a PUBREL under %#x, which holds no record", i, op.Key)
				}
				continue
			}
			if present[op.Key] {
				h.Failf("store operation %d saves a new PUBLISH under key %#x while the previous transfer with that identifier is still in flight", i, op.Key)
			}
			if op.Key&0x3fff == 0 && op.Key&0xc000 != 0 && last[level] == 0x3fff {
				wrapped = true
			}
			seq := int(op.Key & 0x3fff)
			if l := last[level]; l >= 0 && seq != (l+1)&0x3fff {
				h.Failf("store operation %d: level-%d identifiers are not consecutive: %#04x follows %#04x (a refused or failed call must not consume an identifier)", i, level, op.Key, uint(l)|op.Key&0xc000)
			}
			last[level] = seq
			present[op.Key] = true
			count[level]++
			if count[level] > limit[level] {
				h.Failf("store operation %d: %d level-%d transfers in flight, the configured maximum is %d", i, count[level], level, limit[level])
			}
			if count[level] > peak[level] {
				peak[level] = count[level]
			}
		case 'D':
			if present[op.Key] {
				delete(present, op.Key)
				count[level]--
			}
		}
	}
	return
}

func (h *H) inFlight(level byte) int {
	n := 0
	for k := range h.Store.Content() {
		if level == 1 && k&0xc000 == 0x8000 && k <= 0xffff || level == 2 && k&0xc000 == 0xc000 && k <= 0xffff {
			n++
		}
	}
	return n
}

// C17 — in-flight packet identifiers unique and bounded; excess gets ErrMax without blocking.
func TestC17Identifiers(t *testing.T) {
	rapid.Check(t, func(rt *rapid.T) {
		cfg := baseConfig()
		cfg.AtLeastOnceMax = rapid.SampledFrom([]int{0, 1, 2, 3, 5, 16, 16384, -1, 20000}).Draw(rt, "max1")
		cfg.ExactlyOnceMax = rapid.SampledFrom([]int{0, 1, 2, 3, 5, 16, 16384, -1, 20000}).Draw(rt, "max2")
		limit := [3]int{0, normMax(cfg.AtLeastOnceMax), normMax(cfg.ExactlyOnceMax)}
		var h *H
		if rapid.IntRange(0, 2).Draw(rt, "startAtWrap") != 0 && limit[1] > 0 && limit[2] > 0 {
			h = newWrapH(rt, "C17", cfg, []byte{1, 2})
		} else {
			h = newH(rt, "C17", sim.Options{Config: cfg})
		}
		h.Act("config AtLeastOnceMax=%d ExactlyOnceMax=%d", cfg.AtLeastOnceMax, cfg.ExactlyOnceMax)
		reachedLimit, wrappedAny, restarted := false, false, false
		finish := func() {
			h.finish(reachedLimit || wrappedAny || restarted)
		}
		defer func() { finish() }()
		h.Act("appStep")
		h.appStep("first connect")

		publish := func(rt *rapid.T, level byte) {
			before := h.inFlight(level)
			variant := rapid.SampledFrom([]string{"ok", "ok", "ok", "ok", "deny", "saveFails"}).Draw(rt, "variant")
			var c *sim.Call
			switch variant {
			case "deny":
				bad := rapid.SampledFrom([]string{"", "a\x00b", "\xff", strings.Repeat("x", 65536)}).Draw(rt, "badTopic")
				h.Act("pub%d with an invalid topic (%d bytes)", level, len(bad))
				c = h.Go(fmt.Sprintf("deny%d", level), nil, func() (<-chan error, error) {
					if level == 1 {
						return h.Client.PublishAtLeastOnce([]byte("x"), bad)
					}
					return h.Client.PublishExactlyOnce([]byte("x"), bad)
				})
				h.MustPoll("denied publish returning", func() bool { return h.IsDone(c) })
				if !mqtt.IsDeny(c.Err) {
					h.Failf("publish with an invalid topic returned %v, want an IsDeny error", c.Err)
				}
				return
			case "saveFails":
				h.Store.FailNext('S')
				h.Act("next Save fails")
			}
			c = h.pub(level, false)
			h.MustPoll("persisted publish returning without blocking", func() bool { return h.IsDone(c) })
			h.Store.ClearFaults()
			atLimit := before >= limit[level]
			switch {
			case atLimit:
				reachedLimit = true
				if !isErr(c.Err, mqtt.ErrMax) {
					h.Failf("publish level %d with %d of %d transfers in flight returned %v, want ErrMax", level, before, limit[level], c.Err)
				}
			case isErr(c.Err, mqtt.ErrMax):
				h.Failf("publish level %d got ErrMax with only %d of %d transfers in flight", level, before, limit[level])
			case variant == "saveFails":
				if c.Err == nil {
					h.Failf("publish level %d returned nil although its Save failed", level)
				}
			case c.Err != nil:
				h.Failf("publish level %d with %d of %d in flight: %v", level, before, limit[level], c.Err)
			}
		}

		actions := map[string]func(*rapid.T){
			"pub1":  func(rt *rapid.T) { publish(rt, 1) },
			"pub2":  func(rt *rapid.T) { publish(rt, 2) },
			"pub1b": func(rt *rapid.T) { publish(rt, 1) },
			"pub2b": func(rt *rapid.T) { publish(rt, 2) },
			"releaseAcks": func(rt *rapid.T) {
				c := h.Current()
				if c == nil || len(c.Owed()) == 0 {
					rt.Skip("nothing owed")
				}
				h.App.Step()
				h.releaseAcks(rapid.IntRange(1, 6).Draw(rt, "n"))
			},
			// the Persistence fails the Delete which an acknowledgement asks
			// for: the transfer stays in flight and keeps its slot
			"ackDeleteFails": func(rt *rapid.T) {
				c := h.Current()
				if c == nil || len(c.Owed()) == 0 {
					rt.Skip("nothing owed")
				}
				h.Store.FailNext('D')
				h.Act("the next Delete fails")
				h.App.Step()
				h.releaseAcks(1)
				h.Store.ClearFaults()
				h.appStep("reconnect after the failed Delete")
				h.label("delete-failed-on-acknowledgement")
			},
			"break": func(rt *rapid.T) {
				c := h.Current()
				if c == nil {
					rt.Skip("no connection")
				}
				h.Act("break conn=%d", c.N)
				c.Break(rapid.Bool().Draw(rt, "graceful"))
				h.settleInbound()
			},
			"appStep": func(rt *rapid.T) {
				h.Act("appStep")
				h.appStep("appStep")
			},
			// one slot is left on a level; the connection is lost and the
			// reconnect sits inside its retransmission (holding the sequence
			// locks) when two publishes of that level arrive: one gets the
			// slot, the other ErrMax, neither blocks
			"twoForTheLastSlot": func(rt *rapid.T) {
				c := h.Current()
				level := byte(rapid.IntRange(1, 2).Draw(rt, "level"))
				if c == nil || !c.Accepted() || limit[level] < 2 || h.inFlight(level) != limit[level]-1 || h.WritersParkedAny() || len(h.ParkedGates()) > 0 {
					rt.Skip("needs exactly one free slot on the level and an idle connection")
				}
				d := rapid.IntRange(0, 20).Draw(rt, "parkOff")
				h.Act("twoForTheLastSlot level=%d: break conn=%d; the next connection parks at connect+%d", level, c.N, d)
				h.WithLock(func() {
					h.NextConnOpts = func(c *sim.Conn) {
						c.ArmWriteLocked(sim.WFault{Off: connectLen + d, Kind: sim.WPark})
						h.NextConnOpts = nil
					}
				})
				c.Break(false)
				h.settleInbound()
				h.App.Step()
				h.MustPoll("the reconnect parking inside its retransmission, or coming to rest", func() bool {
					return h.WritersParkedAny() || h.ReaderWaiting() || !h.App.InCall()
				})
				h.WithLock(func() {
					h.NextConnOpts = nil
					if !h.WritersParkedAnyLocked() {
						// nothing to retransmit at that offset: no lock is held; disarm
						for _, cc := range h.Conns {
							cc.ClearFaultsLocked()
						}
					}
				})
				if !h.WritersParkedAny() {
					return
				}
				var calls []*sim.Call
				for i := 0; i < 2; i++ {
					calls = append(calls, h.pub(level, false))
				}
				h.Act("release the retransmission")
				for _, cc := range h.AllConns() {
					for cc.ReleaseWrite() {
					}
				}
				nmax := 0
				for _, call := range calls {
					h.MustPoll("publish for the last slot returning (the slot or ErrMax, no blocking)", func() bool { return h.IsDone(call) })
					if isErr(call.Err, mqtt.ErrMax) {
						nmax++
					} else if call.Err != nil {
						h.Failf("publish level %d for the last slot: %v", level, call.Err)
					}
				}
				if nmax != 1 {
					h.Failf("two publishes of level %d arrived with one slot left (%d of %d in flight): %d of them got ErrMax, want exactly 1", level, limit[level]-1, limit[level], nmax)
				}
				h.SettleReader("connect after the release")
				reachedLimit = true
				h.label("two-publishes-for-the-last-slot-during-a-resend")
			},
			// the reconnect gets its CONNACK, then dies while the pending
			// transfers are retransmitted; the one after is healthy
			"resendFails": func(rt *rapid.T) {
				c := h.Current()
				if c == nil || h.inFlight(1)+h.inFlight(2) == 0 {
					rt.Skip("no connection or nothing to resend")
				}
				d := rapid.IntRange(0, 80).Draw(rt, "off")
				h.Act("break conn=%d; the next connection resets at connect+%d", c.N, d)
				h.WithLock(func() {
					h.NextConnOpts = func(c *sim.Conn) {
						c.ArmWriteLocked(sim.WFault{Off: connectLen + d, Kind: sim.WReset})
						h.NextConnOpts = nil
					}
				})
				c.Break(false)
				h.settleInbound()
				h.appStep("reconnect whose resend fails")
				h.WithLock(func() { h.NextConnOpts = nil })
				h.appStep("next reconnect")
				h.label("resend-failed-midway")
			},
			"restart": func(rt *rapid.T) {
				if h.gen >= 2 {
					rt.Skip("enough generations")
				}
				h.Shutdown(5 * time.Second)
				n, pend := h.restart(restartOpts{K: rapid.IntRange(2, h.Store.NOps()).Draw(rt, "stopPoint"), Late: rapid.Bool().Draw(rt, "late"), Config: cfg})
				stage := h
				h = n
				_ = stage
				if h.Fatal != nil {
					h.Failf("AdoptSession: %v", h.Fatal)
				}
				restarted = restarted || len(pend) > 0
				h.Act("appStep")
				h.appStep("first connect of the adopted client")
			},
			"": func(rt *rapid.T) {
				noPanics(h)
				h.checkWire()
				w, _ := h.checkIdentifiers(&cfg)
				wrappedAny = wrappedAny || w
			},
		}
		rt.Repeat(actions)

		h.drain(func() bool { return h.allPersistedDone() && h.outboundStoreEmpty() })
		noPanics(h)
		h.checkWire()
		w, peak := h.checkIdentifiers(&cfg)
		wrappedAny = wrappedAny || w
		if reachedLimit {
			h.label("limit-reached")
		}
		if wrappedAny {
			h.label("identifier-wrap")
		}
		if restarted {
			h.label("restart-with-pending")
		}
		_ = peak
	})
}

// unorderedID finds the identifier the client put on the SUBSCRIBE or
// UNSUBSCRIBE which carries the filter.
func (h *H) unorderedID(filter string) (id uint16, ok bool) {
	for _, c := range h.AllConns() {
		h.WithLock(func() {
			for _, p := range c.State.Packets {
				if (p.Type == refmqtt.SUBSCRIBE || p.Type == refmqtt.UNSUBSCRIBE) && p.Filters[0] == filter {
					id, ok = p.ID, true
				}
			}
		})
	}
	return
}

// releaseByID releases the owed answer with the identifier on the current connection.
func (h *H) releaseByID(id uint16) bool {
	c := h.Current()
	if c == nil {
		return false
	}
	for i, o := range c.Owed() {
		if o.ID == id && (o.Kind == refmqtt.SUBACK || o.Kind == refmqtt.UNSUBACK) {
			_, ok := c.Release(i)
			return ok
		}
	}
	return false
}

const slotLimit = 512

// C17 — subscribe/unsubscribe slots: identifiers unique among the requests
// awaiting a response, the slot limit yields ErrMax without blocking,
// abandoned requests free their slot and may be answered late.
func TestC17Slots(t *testing.T) {
	rapid.Check(t, func(rt *rapid.T) { slotsCase(rt, "C17", false) })
}

// TestC11CounterLap is the same history judged for C11 (every call returns,
// with the answer to its own request), always with the long run of answered
// requests which makes the 13-bit counter lap the requests still open.
func TestC11CounterLap(t *testing.T) {
	rapid.Check(t, func(rt *rapid.T) { slotsCase(rt, "C11", true) })
}

func slotsCase(rt *rapid.T, prop string, lap bool) {
	{
		h := newH(rt, prop, sim.Options{Config: baseConfig()})
		nontrivial := false
		defer func() { h.finish(nontrivial) }()
		// an outage first: more requests than there are slots get refused
		// (ErrDown); none of them may keep a slot or an identifier
		if rapid.IntRange(0, 2).Draw(rt, "outageFirst") == 0 {
			h.ScriptDial(sim.DialOutcome{Kind: sim.DialErr})
			h.Act("appStep (the connect attempt fails), then %d requests while down", 2*slotLimit+8)
			h.appStep("failed connect")
			for i := 0; i < 2*slotLimit+8; i++ {
				filter := fmt.Sprintf("down%d/#", i)
				isSub := i%3 != 0
				c := h.Go("refused", nil, func() (<-chan error, error) {
					if isSub {
						return nil, h.Client.Subscribe(nil, filter)
					}
					return nil, h.Client.Unsubscribe(nil, filter)
				})
				h.MustPoll("request returning while down", func() bool { return h.IsDone(c) })
				if !isErr(c.Err, mqtt.ErrDown) {
					h.Failf("request %d issued after a failed connect attempt returned %v, want ErrDown", i, c.Err)
				}
			}
			h.label("requests-refused-during-an-outage-first")
			nontrivial = true
		}
		h.Act("appStep")
		h.appStep("first connect")
		n := rapid.SampledFrom([]int{3, 40, 300, 511, 512, 513, 530}).Draw(rt, "requests")
		abandonEvery := rapid.SampledFrom([]int{0, 0, 3, 7}).Draw(rt, "abandonEvery")
		churn := rapid.SampledFrom([]int{0, 0, 0, 8200}).Draw(rt, "churn")
		if lap {
			churn = 8200
			h.label("counter-laps-open-requests")
		}
		if !thorough && churn > 0 && n > 40 {
			n = 40
		}
		h.Act("issue %d subscribe/unsubscribe requests, abandon every %d-th; the broker withholds its answers; then %d answered requests", n, abandonEvery, churn)
		type slot struct {
			call      *sim.Call
			quit      chan struct{}
			filter    string
			id        uint16
			abandoned bool
		}
		var slots []*slot
		openIDs := map[uint16]*slot{}
		issue := func(i int, answered bool) *slot {
			quit := make(chan struct{})
			filter := fmt.Sprintf("s%d/#", i)
			req := &Req{Kind: "sub", Filters: []string{filter}, Level: 2, Quit: "open"}
			isSub := i%3 != 0
			if !isSub {
				req.Kind = "unsub"
			}
			c := h.Go(req.Kind, req, func() (<-chan error, error) {
				if isSub {
					return nil, h.Client.Subscribe(quit, filter)
				}
				return nil, h.Client.Unsubscribe(quit, filter)
			})
			s := &slot{call: c, quit: quit, filter: filter}
			h.MustPoll("request written or returned", func() bool {
				if h.IsDone(c) {
					return true
				}
				s.id, _ = h.unorderedID(filter)
				return s.id != 0
			})
			return s
		}
		// A lone request which is abandoned after its submission, then the
		// next one of its kind: the broker still owes the first answer, so
		// the identifier is not free (nothing else is pending meanwhile).
		if rapid.Bool().Draw(rt, "loneAbandonedFirst") {
			a := issue(-1, false)
			if !h.IsDone(a.call) && a.id != 0 {
				close(a.quit)
				h.MustPoll("abandoned request returning", func() bool { return h.IsDone(a.call) })
				b := issue(-4, false) // (same kind as a: both indexes are ≡ 2 mod 3)
				if b.id == a.id {
					h.Failf("a lone request was abandoned after submission (identifier %#04x, its answer is still owed); the very next request got the same identifier", a.id)
				}
				h.Act("the late answer to the abandoned request, then the answer to its successor")
				h.App.Step()
				h.releaseByID(a.id)
				h.settleInbound()
				if h.IsDone(b.call) {
					h.Failf("the late answer to the abandoned request %#04x completed the request which followed it (%#04x): returned %v", a.id, b.id, b.call.Err)
				}
				if !h.releaseByID(b.id) {
					h.Failf("VERIF-INFRA: no owed answer for %#04x", b.id)
				}
				h.MustPoll("answered request returning", func() bool { return h.IsDone(b.call) })
				if b.call.Err != nil {
					h.Failf("request %#04x was answered, yet returned %v", b.id, b.call.Err)
				}
				h.label("lone-request-abandoned-then-successor")
				nontrivial = true
			}
		}
		// A request which took its slot and then waits for the write lock
		// (a publisher sits inside Write) when the connection is lost: it goes
		// out on the next connection with the identifier it has. The request
		// which follows must not get that identifier while the broker owes
		// the answer on this very connection.
		if c0 := h.Current(); c0 != nil && c0.Accepted() && rapid.IntRange(0, 2).Draw(rt, "waitsAcrossReconnectFirst") == 0 {
			h.armWrite(rapid.IntRange(0, 3).Draw(rt, "parkOff"), sim.WPark)
			w := h.pub(0, false)
			fa := "across/#"
			ca := h.Go("sub", &Req{Kind: "sub", Filters: []string{fa}, Level: 2, Quit: "nil"}, func() (<-chan error, error) { return nil, h.Client.Subscribe(nil, fa) })
			h.PollQuiet(2*time.Millisecond, func() bool { return false })
			h.Act("break conn=%d while a Subscribe waits for the write lock; reconnect", c0.N)
			c0.Break(false)
			for i := 0; i < 8; i++ {
				if cur := h.Current(); cur != nil && cur != c0 && cur.Accepted() && h.ReaderWaiting() {
					break
				}
				h.App.Step()
				h.PollQuiet(2*time.Millisecond, func() bool { return false })
			}
			if cur := h.Current(); cur != nil && cur != c0 && cur.Accepted() {
				h.MustPoll("the Subscribe which waited for the write lock written on the new connection, or returned", func() bool {
					_, ok := h.unorderedID(fa)
					return ok || h.IsDone(ca)
				})
				idA, okA := h.unorderedID(fa)
				onCur := false
				h.WithLock(func() {
					for _, p := range cur.State.Packets {
						if p.Type == refmqtt.SUBSCRIBE && p.Filters[0] == fa {
							onCur = true
						}
					}
				})
				b := issue(-7, false)
				if okA && onCur && !h.IsDone(b.call) && b.id == idA {
					h.Failf("a Subscribe which had waited for the write lock across a connection loss went out on conn %d with identifier %#04x; the next request got the same identifier while that answer is still owed", cur.N, idA)
				}
				h.Act("both answers")
				h.App.Step()
				if okA && onCur {
					h.releaseByID(idA)
				}
				h.settleInbound()
				if !h.IsDone(b.call) {
					h.releaseByID(b.id)
				}
				h.MustPoll("the request which followed returning", func() bool { return h.IsDone(b.call) })
				h.MustPoll("the Subscribe which waited returning", func() bool { return h.IsDone(ca) })
				h.label("request-waits-for-the-write-lock-across-a-connection-loss")
				nontrivial = true
			}
			h.SettleCall(w)
		}
		for i := 0; i < n; i++ {
			s := issue(i, false)
			slots = append(slots, s)
			if h.IsDone(s.call) {
				if len(openIDs) < slotLimit {
					h.Failf("request %d returned %v with %d of %d slots in use", i, s.call.Err, len(openIDs), slotLimit)
				}
				if !isErr(s.call.Err, mqtt.ErrMax) {
					h.Failf("request %d beyond the slot limit returned %v, want ErrMax", i, s.call.Err)
				}
				nontrivial = true
				continue
			}
			if len(openIDs) >= slotLimit {
				h.Failf("request %d got a slot (identifier %#04x) although %d requests await their response", i, s.id, len(openIDs))
			}
			if other := openIDs[s.id]; other != nil {
				h.Failf("request %d got identifier %#04x, which request %q still uses", i, s.id, other.filter)
			}
			openIDs[s.id] = s
			if abandonEvery != 0 && i%abandonEvery == abandonEvery-1 {
				close(s.quit)
				s.abandoned = true
				h.MustPoll("abandoned request returning", func() bool { return h.IsDone(s.call) })
				if !isErr(s.call.Err, mqtt.ErrAbandoned) {
					h.Failf("request %d abandoned after submission returned %v, want ErrAbandoned", i, s.call.Err)
				}
				delete(openIDs, s.id)
			}
		}
		// a long run of answered requests while the others stay open: the
		// 13-bit counter wraps and must skip the identifiers still in use
		for i := 0; i < churn; i++ {
			if len(openIDs) >= slotLimit {
				break
			}
			s := issue(n+i, true)
			if h.IsDone(s.call) {
				h.Failf("request %d returned %v with %d of %d slots in use", n+i, s.call.Err, len(openIDs), slotLimit)
			}
			if other := openIDs[s.id]; other != nil {
				h.Failf("after %d further requests identifier %#04x was handed out again while request %q still awaits its response", i, s.id, other.filter)
			}
			if !h.releaseByID(s.id) {
				h.Failf("VERIF-INFRA: no owed answer for %#04x", s.id)
			}
			h.App.Step()
			h.MustPoll("answered request returning", func() bool { return h.IsDone(s.call) })
			if s.call.Err != nil {
				h.Failf("request %d was answered, yet returned %v", n+i, s.call.Err)
			}
			nontrivial = true
		}
		// answers in a drawn order, late ones for abandoned requests included
		order := rapid.SampledFrom([]string{"forward", "reverse", "interleaved"}).Draw(rt, "order")
		idx := make([]int, 0, len(slots))
		for i := range slots {
			idx = append(idx, i)
		}
		switch order {
		case "reverse":
			for i, j := 0, len(idx)-1; i < j; i, j = i+1, j-1 {
				idx[i], idx[j] = idx[j], idx[i]
			}
		case "interleaved":
			var a []int
			for i := 0; i < len(idx); i += 2 {
				a = append(a, idx[i])
			}
			for i := 1; i < len(idx); i += 2 {
				a = append(a, idx[i])
			}
			idx = a
		}
		answer := rapid.IntRange(0, len(idx)).Draw(rt, "answers")
		h.Act("the broker answers %d requests in %s order", answer, order)
		h.App.Step()
		for _, i := range idx[:answer] {
			s := slots[i]
			if s.id == 0 {
				continue // never submitted (ErrMax)
			}
			returnedBefore := map[*slot]bool{}
			for _, o := range openIDs {
				returnedBefore[o] = h.IsDone(o.call)
			}
			if !h.releaseByID(s.id) {
				continue
			}
			h.settleInbound()
			if !s.abandoned {
				h.MustPoll("answered request returning", func() bool { return h.IsDone(s.call) })
				if s.call.Err != nil {
					h.Failf("request %q was answered by the broker, yet returned %v", s.filter, s.call.Err)
				}
				delete(openIDs, s.id)
			}
			for _, o := range openIDs {
				if o != s && !returnedBefore[o] && h.IsDone(o.call) {
					h.Failf("the answer for %#04x (%q) completed request %q (%#04x) with %v", s.id, s.filter, o.filter, o.id, o.call.Err)
				}
			}
		}
		// connection loss releases the rest
		if c := h.Current(); c != nil {
			h.Act("break")
			c.Break(false)
			h.settleInbound()
		}
		for _, o := range openIDs {
			h.MustPoll("pending request returning after connection loss", func() bool { return h.IsDone(o.call) })
			if !isErr(o.call.Err, mqtt.ErrBreak, mqtt.ErrSubmit) {
				h.Failf("request %q pending at the connection loss returned %v, want ErrBreak", o.filter, o.call.Err)
			}
		}
		noPanics(h)
		h.checkWire()
		if n >= slotLimit {
			h.label("slot-limit-reached")
		}
		if churn > 0 {
			h.label("identifier-counter-wrapped-with-open-requests")
		}
		if abandonEvery > 0 {
			h.label("abandoned-then-answered-late")
			nontrivial = true
		}
	}
}
