package props

import (
	"crypto/tls"
	"errors"
	"fmt"
	"net"
	"sync"
	"testing"
	"time"

	"github.com/pascaldekloe/mqtt"
	"pgregory.net/rapid"
	"verifh/stats"
)

// C12 with the Dialers the library itself provides, over real sockets on the
// loopback interface: the state "dialing" lasts for as long as the Dialer
// takes, and ending it is the job of the context which connect hands over.
// The peer accepts the TCP connection and then says nothing (a TLS handshake
// never completes; a plain connection is established and gets no CONNACK) or
// does not accept at all (the listen backlog takes the connection). Close and
// Disconnect must return and ReadSlices must report ErrClosed. The bound is
// the hang oracle's quiet period, not a performance figure: nothing else
// happens in the case.
func TestC12LibraryDialers(t *testing.T) {
	rapid.Check(t, func(rt *rapid.T) {
		useTLS := rapid.Bool().Draw(rt, "tls")
		pause := time.Duration(rapid.SampledFrom([]int{0, 0, 3000}).Draw(rt, "pauseTimeoutMs")) * time.Millisecond
		how := rapid.SampledFrom([]string{"close", "disconnect-nil", "disconnect-fired"}).Draw(rt, "shutdown")
		wait := time.Duration(rapid.IntRange(0, 30).Draw(rt, "dialingForMs")) * time.Millisecond
		desc := fmt.Sprintf("library dialer tls=%t PauseTimeout=%v shutdown=%s after %v of dialing", useTLS, pause, how, wait)

		l, err := net.Listen("tcp", "127.0.0.1:0")
		if err != nil {
			rt.Skip("no loopback interface")
		}
		defer l.Close()
		var mu sync.Mutex
		var accepted []net.Conn
		acceptedOne := make(chan struct{}, 16)
		go func() {
			for {
				c, err := l.Accept()
				if err != nil {
					return
				}
				mu.Lock()
				accepted = append(accepted, c) // silent peer
				mu.Unlock()
				acceptedOne <- struct{}{}
			}
		}()
		defer func() {
			mu.Lock()
			for _, c := range accepted {
				c.Close()
			}
			mu.Unlock()
		}()

		cfg := mqtt.Config{PauseTimeout: pause, AtLeastOnceMax: 2, ExactlyOnceMax: 2}
		if useTLS {
			cfg.Dialer = mqtt.NewTLSDialer("tcp", l.Addr().String(), &tls.Config{InsecureSkipVerify: true})
		} else {
			cfg.Dialer = mqtt.NewDialer("tcp", l.Addr().String())
		}
		client, err := mqtt.VolatileSession("dialers", &cfg)
		if err != nil {
			rt.Fatalf("VERIF-INFRA: %v", err)
		}
		readErr := make(chan error, 1)
		go func() {
			for {
				_, _, err := client.ReadSlices()
				if errors.Is(err, mqtt.ErrClosed) {
					readErr <- err
					return
				}
				if err != nil {
					time.Sleep(time.Millisecond)
				}
			}
		}()
		select {
		case <-acceptedOne:
		case <-time.After(5 * time.Second):
			client.Close()
			rt.Skip("inconclusive: the Dialer did not reach the listener within 5 s")
		}
		time.Sleep(wait)

		done := make(chan error, 1)
		go func() {
			switch how {
			case "close":
				done <- client.Close()
			case "disconnect-nil":
				done <- client.Disconnect(nil)
			default:
				quit := make(chan struct{})
				close(quit)
				done <- client.Disconnect(quit)
			}
		}()
		const quietPeriod = 5 * time.Second
		select {
		case <-done:
		case <-time.After(quietPeriod):
			violate(rt, "C12", "%s: the call did not return within %v although the context it cancels is all which holds the Dialer", desc, quietPeriod)
		}
		if how != "close" {
			client.Close()
		}
		select {
		case <-readErr:
		case <-time.After(quietPeriod):
			violate(rt, "C12", "%s: ReadSlices did not report ErrClosed within %v after the shutdown", desc, quietPeriod)
		}
		stats.For("C12").Case(desc, true, "library-dialers-over-loopback")
	})
}
