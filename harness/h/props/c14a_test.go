package props

import (
	"bytes"
	"errors"
	"fmt"
	"net"
	"os"
	"strings"
	"syscall"
	"testing"

	"github.com/pascaldekloe/mqtt"
	"pgregory.net/rapid"
	"verifh/refmqtt"
	"verifh/sim"
	"verifh/stats"
)

func c14Stats() *stats.Recorder {
	if p := os.Getenv("VERIF_PROP"); strings.HasPrefix(p, "C14") {
		return stats.For(p)
	}
	return stats.For("C14")
}

// C14 (history half) — errors stay in documented classes; 'not submitted'
// means no byte was sent.
func TestC14aErrorClasses(t *testing.T) {
	rapid.Check(t, func(rt *rapid.T) {
		prop := "C14"
		if p := os.Getenv("VERIF_PROP"); strings.HasPrefix(p, "C14") {
			prop = p
		}
		cfg := baseConfig()
		cfg.AtLeastOnceMax = rapid.SampledFrom([]int{0, 1, 4}).Draw(rt, "max1")
		cfg.ExactlyOnceMax = rapid.SampledFrom([]int{0, 1, 4}).Draw(rt, "max2")
		h := newH(rt, prop, sim.Options{Config: cfg})
		state := rapid.SampledFrom([]string{"pending", "attempt-in-progress", "down", "online", "online", "online", "closed"}).Draw(rt, "state")
		method := rapid.SampledFrom([]string{"Publish", "PublishRetained", "Subscribe", "SubscribeLimitAtMostOnce", "SubscribeLimitAtLeastOnce", "Unsubscribe", "Ping", "Disconnect",
			"PublishAtLeastOnce", "PublishAtLeastOnceRetained", "PublishExactlyOnce", "PublishExactlyOnceRetained"}).Draw(rt, "method")
		placement := rapid.SampledFrom([]string{"none", "write-fails-at-once", "write-fails-within", "write-expires-after-progress", "response-lost", "malformed-response", "store-fault", "close-while-waiting", "invalid-argument", "fill-queue", "closed-while-writing", "closed-while-writing"}).Draw(rt, "placement")
		quitKind := rapid.SampledFrom([]string{"nil", "nil", "closed", "fires-while-waiting"}).Draw(rt, "quit")
		h.Act("state=%s method=%s placement=%s quit=%s max=%d/%d", state, method, placement, quitKind, cfg.AtLeastOnceMax, cfg.ExactlyOnceMax)
		underFault := false
		defer func() { h.finish(underFault) }()

		// --- state ---
		switch state {
		case "attempt-in-progress":
			h.ScriptDial(sim.DialOutcome{Connack: &sim.ConnackPolicy{Kind: sim.ConnackHold}})
			h.App.Step()
			h.SettleReader("handshake outstanding")
		case "down":
			h.ScriptDial(sim.DialOutcome{Kind: sim.DialErr})
			h.App.Step()
			h.SettleReader("failed connect")
		case "online", "closed":
			h.App.Step()
			h.SettleReader("connect")
			if state == "closed" {
				h.Client.Close()
				if rapid.Bool().Draw(rt, "readToErrClosed") {
					h.App.Step()
					h.SettleReader("ErrClosed")
				}
			}
		}

		// --- arguments ---
		marker := fmt.Sprintf("m14-%d-%s", rapid.IntRange(0, 999).Draw(rt, "n"), strings.Repeat("k", rapid.SampledFrom([]int{0, 20, 140}).Draw(rt, "pad")))
		topic := marker
		payload := bytes.Repeat([]byte{'p'}, rapid.SampledFrom([]int{0, 3, 200}).Draw(rt, "payload"))
		invalid := placement == "invalid-argument"
		if invalid {
			topic = rapid.SampledFrom([]string{"", marker + "\x00", marker + "\xff", marker + strings.Repeat("z", 65536)}).Draw(rt, "badTopic")
		}
		persisted := strings.HasPrefix(method, "PublishAtLeastOnce") || strings.HasPrefix(method, "PublishExactlyOnce")
		level := 0
		if strings.HasPrefix(method, "PublishAtLeastOnce") {
			level = 1
		} else if persisted {
			level = 2
		}
		if placement == "fill-queue" && persisted {
			max := cfg.AtLeastOnceMax
			if level == 2 {
				max = cfg.ExactlyOnceMax
			}
			for i := 0; i < max; i++ {
				if level == 1 {
					h.Client.PublishAtLeastOnce([]byte("fill"), fmt.Sprintf("fill/%d", i))
				} else {
					h.Client.PublishExactlyOnce([]byte("fill"), fmt.Sprintf("fill/%d", i))
				}
			}
		}

		// --- fault placement before the call ---
		c := h.Current()
		switch placement {
		case "write-fails-at-once":
			if c != nil {
				c.ArmWrite(sim.WFault{Off: c.OutLen(), Kind: rapid.SampledFrom([]int{sim.WReset, sim.WTimeout}).Draw(rt, "wkind")})
				underFault = true
			}
		case "write-fails-within":
			if c != nil {
				c.ArmWrite(sim.WFault{Off: c.OutLen() + rapid.IntRange(1, 12).Draw(rt, "cut"), Kind: sim.WReset})
				underFault = true
			}
		case "write-expires-after-progress":
			if c != nil {
				c.ArmWrite(sim.WFault{Off: c.OutLen() + rapid.IntRange(1, 12).Draw(rt, "cut"), Kind: sim.WTimeoutProgress})
				underFault = true
			}
		case "store-fault":
			h.Store.FailNext('S')
			underFault = underFault || persisted
		case "closed-while-writing":
			// the request gets stuck inside Write after part of its packet
			// went out; then the connection is closed locally
			if c != nil {
				c.ArmWrite(sim.WFault{Off: c.OutLen() + rapid.IntRange(1, 6).Draw(rt, "cut"), Kind: sim.WPark})
				underFault = true
			}
		}
		q1Before, q2Before := mqtt.VerifQueueLen(h.Client)
		slotsBefore := mqtt.VerifUnorderedSlots(h.Client)
		savesBefore := h.Store.NOps()

		// the connection reports an error when it is closed (a broker which hangs
		// up the moment it has read DISCONNECT makes a TLS close_notify fail)
		if c != nil && state == "online" && rapid.IntRange(0, 3).Draw(rt, "closeReportsAnError") == 0 {
			h.WithLock(func() { c.CloseErr = &net.OpError{Op: "close", Net: "sim", Err: syscall.EPIPE} })
			h.label("connection-close-reports-an-error")
		}
		// an earlier persisted publish of the same level was refused (its Save
		// failed): that is over and done with, the next one is an ordinary publish
		priorRefused := false
		if state == "online" && persisted && placement == "none" && rapid.IntRange(0, 2).Draw(rt, "priorRefusedPublish") == 0 {
			h.Store.FailNext('S')
			var perr error
			if strings.HasPrefix(method, "PublishAtLeastOnce") {
				_, perr = h.Client.PublishAtLeastOnce([]byte("refused"), "prior/refused")
			} else {
				_, perr = h.Client.PublishExactlyOnce([]byte("refused"), "prior/refused")
			}
			h.Store.ClearFaults()
			if perr == nil {
				h.Failf("a persisted publish whose Save failed returned nil")
			}
			h.Act("an earlier publish of the level was refused: %v", perr)
			priorRefused = true
			q1Before, q2Before = mqtt.VerifQueueLen(h.Client)
			savesBefore = h.Store.NOps()
		}

		// --- the call ---
		var quit chan struct{}
		if quitKind != "nil" {
			quit = make(chan struct{})
			if quitKind == "closed" {
				close(quit)
			}
		}
		var quitArg <-chan struct{} = quit
		if quit == nil {
			quitArg = nil
		}
		cl := h.Client
		call := h.Go(method, &Req{Kind: "c14", Topic: topic}, func() (<-chan error, error) {
			switch method {
			case "Publish":
				return nil, cl.Publish(quitArg, payload, topic)
			case "PublishRetained":
				return nil, cl.PublishRetained(quitArg, payload, topic)
			case "Subscribe":
				return nil, cl.Subscribe(quitArg, topic, marker+"/second")
			case "SubscribeLimitAtMostOnce":
				return nil, cl.SubscribeLimitAtMostOnce(quitArg, topic)
			case "SubscribeLimitAtLeastOnce":
				return nil, cl.SubscribeLimitAtLeastOnce(quitArg, topic)
			case "Unsubscribe":
				return nil, cl.Unsubscribe(quitArg, topic)
			case "Ping":
				return nil, cl.Ping(quitArg)
			case "Disconnect":
				return nil, cl.Disconnect(quitArg)
			case "PublishAtLeastOnce":
				return cl.PublishAtLeastOnce(payload, topic)
			case "PublishAtLeastOnceRetained":
				return cl.PublishAtLeastOnceRetained(payload, topic)
			case "PublishExactlyOnce":
				return cl.PublishExactlyOnce(payload, topic)
			}
			return cl.PublishExactlyOnceRetained(payload, topic)
		})
		h.SettleCall(call)

		if placement == "closed-while-writing" && !h.IsDone(call) && h.WritersParkedAny() {
			switch rapid.IntRange(0, 2).Draw(rt, "closer") {
			case 0: // the read routine resets on a protocol violation
				if cur := h.Current(); cur != nil {
					cur.Send([]byte{0xf0, 0})
					h.App.Step()
				}
			case 1:
				h.Go("close", nil, func() (<-chan error, error) { return nil, cl.Close() })
			case 2:
				q := make(chan struct{})
				close(q)
				h.Go("disconnect", nil, func() (<-chan error, error) { return nil, cl.Disconnect(q) })
			}
			h.PollQuiet(quiet, func() bool { return h.IsDone(call) })
			h.SettleCall(call)
		}
		// --- what happens while it waits ---
		waits := method == "Ping" || strings.HasPrefix(method, "Subscribe") || method == "Unsubscribe"
		if !h.IsDone(call) {
			switch {
			case state == "attempt-in-progress":
				// the attempt gets its outcome
				if cur := h.Current(); cur != nil {
					if rapid.Bool().Draw(rt, "attemptSucceeds") {
						cur.ReleaseConnack(0)
					} else {
						cur.ReleaseConnack(byte(rapid.IntRange(1, 5).Draw(rt, "code")))
					}
					h.SettleReader("handshake outcome")
					h.SettleCall(call)
				}
			case state == "pending":
				h.App.Step()
				h.SettleReader("first connect")
				h.SettleCall(call)
			}
		}
		if !h.IsDone(call) && waits {
			cur := h.Current()
			switch placement {
			case "response-lost":
				if cur != nil {
					cur.Break(rapid.Bool().Draw(rt, "graceful"))
					underFault = true
				}
			case "malformed-response":
				if cur != nil && cur.Accepted() {
					underFault = true
					owed := cur.Owed()
					var id uint16
					for _, o := range owed {
						if o.Kind == refmqtt.SUBACK || o.Kind == refmqtt.UNSUBACK {
							id = o.ID
						}
					}
					var b []byte
					switch rapid.IntRange(0, 4).Draw(rt, "malformation") {
					case 0: // wrong number of return codes
						b = refmqtt.Encode(&refmqtt.Packet{Type: refmqtt.SUBACK, ID: id | 0x6000, Codes: []byte{0, 0, 0, 0, 0}})
					case 1: // illegal return code
						b = refmqtt.Encode(&refmqtt.Packet{Type: refmqtt.SUBACK, ID: id | 0x6000, Codes: []byte{3}})
					case 2: // identifier zero
						b = []byte{0xb0, 2, 0, 0}
					case 3: // PINGRESP with content
						b = []byte{0xd0, 1, 0}
					case 4: // truncated, then EOF
						b = []byte{0x90, 4, byte(id >> 8)}
						cur.Send(b)
						cur.Break(true)
						b = nil
					}
					if b != nil {
						cur.Send(b)
					}
				}
			case "close-while-waiting":
				underFault = true
				h.Go("close", nil, func() (<-chan error, error) { return nil, cl.Close() })
			}
			if quitKind == "fires-while-waiting" {
				close(quit)
				underFault = true
			}
			h.App.Step()
			h.SettleReader("consequences")
			h.SettleCall(call)
		}
		// an honest answer for whoever still waits
		if !h.IsDone(call) {
			if cur := h.Current(); cur != nil && cur.Accepted() {
				h.WithLock(func() { h.FlushOwedLocked(cur) })
				h.App.Step()
				h.SettleReader("answer")
				h.SettleCall(call)
			}
		}
		brokenWhileOpen := false
		if !h.IsDone(call) {
			// nothing else resolves it: the connection goes
			// (on an overloaded machine this also meets a call whose goroutine
			// has not got going yet: the connection is no longer a healthy
			// one for it, see the online/no-fault rule below)
			if cur := h.Current(); cur != nil {
				cur.Break(false)
				brokenWhileOpen = true
			}
			for i := 0; i < 4 && !h.IsDone(call); i++ {
				h.App.Step()
				h.SettleReader("loss")
				h.SettleCall(call)
			}
		}
		// (a request whose goroutine got going late may have been written on the
		// connection which followed: there it gets its honest answer)
		for i := 0; i < 6 && !h.IsDone(call); i++ {
			if cur := h.Current(); cur != nil && cur.Accepted() {
				h.WithLock(func() { h.FlushOwedLocked(cur) })
			}
			h.App.Step()
			h.SettleReader("resolution")
			h.SettleCall(call)
		}
		h.MustPoll(method+" returning", func() bool { return h.IsDone(call) })
		noPanics(h)
		err := call.Err

		// --- the documented classes ---
		var subErr mqtt.SubscribeError
		is := func(targets ...error) bool { return isErr(err, targets...) }
		deny, end := mqtt.IsDeny(err), mqtt.IsEnd(err)
		if deny && end {
			h.Failf("%s returned %v, which is both IsDeny and IsEnd", method, err)
		}
		allowed := false
		switch {
		case err == nil:
			allowed = true
		case method == "Publish" || method == "PublishRetained":
			allowed = is(mqtt.ErrClosed, mqtt.ErrDown, mqtt.ErrCanceled, mqtt.ErrSubmit) || deny
		case method == "Disconnect":
			allowed = is(mqtt.ErrClosed, mqtt.ErrDown, mqtt.ErrCanceled, mqtt.ErrSubmit)
		case method == "Ping":
			allowed = is(mqtt.ErrClosed, mqtt.ErrDown, mqtt.ErrMax, mqtt.ErrCanceled, mqtt.ErrSubmit, mqtt.ErrBreak, mqtt.ErrAbandoned)
		case waits:
			allowed = is(mqtt.ErrClosed, mqtt.ErrDown, mqtt.ErrMax, mqtt.ErrCanceled, mqtt.ErrSubmit, mqtt.ErrBreak, mqtt.ErrAbandoned) || deny ||
				errors.As(err, &subErr) && strings.HasPrefix(method, "Subscribe")
		case persisted:
			allowed = is(mqtt.ErrClosed, mqtt.ErrMax, sim.ErrStore) || deny
		}
		if !allowed {
			h.Failf("%s (state %s, placement %s, quit %s) returned %v, which is outside the classes the package documentation lists for it", method, state, placement, quitKind, err)
		}
		if invalid && !deny && !is(mqtt.ErrClosed) && method != "Ping" && method != "Disconnect" {
			// (a closed client may answer ErrClosed before validation? no: validation comes first)
			h.Failf("%s with an invalid argument returned %v, want an IsDeny error", method, err)
		}
		if !invalid && deny {
			h.Failf("%s with valid arguments returned the IsDeny error %v", method, err)
		}
		if quitKind == "nil" && is(mqtt.ErrCanceled, mqtt.ErrAbandoned) {
			h.Failf("%s without quit returned %v", method, err)
		}
		// not submitted ⇒ no byte of the request on any wire
		notSubmitted := err != nil && (is(mqtt.ErrClosed, mqtt.ErrDown, mqtt.ErrMax, mqtt.ErrCanceled) || deny) && !persisted
		if notSubmitted && !is(mqtt.ErrSubmit, mqtt.ErrBreak, mqtt.ErrAbandoned) {
			for _, cn := range h.AllConns() {
				out := cn.OutCopy()
				if bytes.Contains(out, []byte(marker)) {
					h.Failf("%s returned %v (not submitted), yet conn %d carries bytes of the request", method, err, cn.N)
				}
				if method == "Ping" || method == "Disconnect" {
					ps, rest, _ := refmqtt.DecodeAll(out)
					want := byte(refmqtt.PINGREQ)
					if method == "Disconnect" {
						want = refmqtt.DISCONNECT
					}
					for _, p := range ps {
						if p.Type == want {
							h.Failf("%s returned %v (not submitted), yet conn %d carries its packet", method, err, cn.N)
						}
					}
					if len(rest) != 0 && rest[0]>>4 == want {
						h.Failf("%s returned %v (not submitted), yet conn %d carries the start of its packet", method, err, cn.N)
					}
				}
			}
			if waits && mqtt.VerifUnorderedSlots(h.Client) > slotsBefore {
				h.Failf("%s returned %v, yet a request slot stays occupied", method, err)
			}
		}
		// a persisted publish which returned an error was not enqueued
		if persisted && err != nil {
			q1, q2 := mqtt.VerifQueueLen(h.Client)
			if state != "closed" && (q1 != q1Before || q2 != q2Before) {
				h.Failf("%s returned %v, yet the in-flight queue went from %d/%d to %d/%d", method, err, q1Before, q2Before, q1, q2)
			}
			for _, op := range h.Store.OpsCopy()[savesBefore:] {
				if op.Kind == 'S' && op.Err == nil && bytes.Contains(op.Val, []byte(marker)) {
					h.Failf("%s returned %v, yet its record was saved", method, err)
				}
			}
			for _, cn := range h.AllConns() {
				if bytes.Contains(cn.OutCopy(), []byte(marker)) {
					h.Failf("%s returned %v, yet conn %d carries bytes of the message", method, err, cn.N)
				}
			}
		}
		// online, no fault: an accepted publish goes out; its exchange reports no submission error
		if brokenWhileOpen && state == "online" && placement == "none" && persisted {
			stats.For("C14").Label("online-no-fault-rule-skipped:the-harness-took-the-connection-before-the-call-returned", 1)
		}
		if state == "online" && placement == "none" && persisted && err == nil && quitKind != "x" && !brokenWhileOpen {
			h.PollExchanges()
			var errs []error
			h.WithLock(func() { errs = append(errs, call.ExchErrs...) })
			if len(errs) != 0 {
				h.Failf("%s on a healthy connection (earlier publish refused: %t) was accepted, yet its exchange reports %v", method, priorRefused, errs)
			}
			if !bytes.Contains(h.AllConns()[len(h.AllConns())-1].OutCopy(), []byte(marker)) {
				h.Failf("%s on a healthy connection (earlier publish refused: %t) was accepted, yet its packet is not on the wire", method, priorRefused)
			}
		}
		// Backoff: nil exactly for the permanent classes
		if state != "closed" || true {
			ch := h.Client.Backoff(err)
			permanent := err == nil || deny || end || errors.As(err, &subErr)
			if permanent != (ch == nil) {
				h.Failf("Backoff(%v) = %v channel, IsDeny %t IsEnd %t SubscribeError %t", err, map[bool]string{true: "nil", false: "a"}[ch == nil], deny, end, errors.As(err, &subErr))
			}
		}
		if err != nil {
			h.label("error-return")
		}
		if underFault && err != nil {
			h.label("error-under-fault")
		}
		underFault = underFault && err != nil
	})
}
