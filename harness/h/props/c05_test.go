package props

import (
	"bytes"
	"fmt"
	"testing"
	"time"

	"pgregory.net/rapid"
	"verifh/refmqtt"
	"verifh/sim"
)

// checkOrderAndDup verifies C05 over the wire logs of this process generation.
// afterRestart relaxes DUP on resumed packets (documented BUG note, L7).
func (h *H) checkOrderAndDup(msgs []*Msg, strictDup bool) (inflightAtReconnect int) {
	byID := map[uint16]*Msg{}
	for _, m := range msgs {
		byID[m.ID] = m
	}
	type seen struct {
		complete bool // a complete PUBLISH was on an earlier (or this) wire
		partial  bool // an incomplete transmission ended an earlier wire
	}
	state := map[uint16]*seen{}
	lastFirst := map[byte]*Msg{} // per level: the latest message which made its first appearance
	lastRel := (*Msg)(nil)
	relSeen := map[uint16]bool{}

	for _, c := range h.AllConns() {
		out := c.OutCopy()
		packets, rest, _ := refmqtt.DecodeAll(out)
		onThisConn := 0
		for _, p := range packets {
			switch p.Type {
			case refmqtt.PUBLISH:
				if p.QoS == 0 {
					continue
				}
				m := byID[p.ID]
				if m == nil {
					continue // in-progress acceptance; checkWire vouches for the packet
				}
				st := state[p.ID]
				if st == nil {
					st = &seen{}
					state[p.ID] = st
				}
				if !st.complete {
					// first complete appearance: acceptance order per level
					if prev := lastFirst[p.QoS]; prev != nil && prev.SaveSeq > m.SaveSeq {
						h.Failf("conn %d: PUBLISH %#04x (%q) makes its first appearance after %#04x (%q), which was accepted later", c.N, m.ID, m.Req.Topic, prev.ID, prev.Req.Topic)
					}
					lastFirst[p.QoS] = m
				} else {
					onThisConn++
				}
				if strictDup && !m.Inherited { // resumed after a restart: DUP either way (L7)
					switch {
					case st.complete && !p.Dup:
						h.Failf("conn %d: retransmission of %#04x (%q), which had been written completely before, lacks the DUP flag", c.N, m.ID, m.Req.Topic)
					case !st.complete && !st.partial && p.Dup:
						h.Failf("conn %d: first transmission of %#04x (%q) carries the DUP flag", c.N, m.ID, m.Req.Topic)
					}
				}
				st.complete = true
			case refmqtt.PUBREL:
				m := byID[p.ID]
				if m == nil {
					continue
				}
				if !relSeen[p.ID] {
					if lastRel != nil && lastRel.SaveSeq > m.SaveSeq {
						h.Failf("conn %d: first PUBREL %#04x goes out after PUBREL %#04x although its PUBREC came earlier", c.N, m.ID, lastRel.ID)
					}
					lastRel = m
					relSeen[p.ID] = true
				}
			}
		}
		if onThisConn >= 2 {
			inflightAtReconnect++
		}
		// an incomplete PUBLISH at the end of this wire: mark candidates partial
		if len(rest) != 0 && rest[0]>>4 == refmqtt.PUBLISH {
			for _, m := range msgs {
				ref := refPublish(m)
				n := len(rest)
				if n > len(ref) {
					continue
				}
				a := append([]byte(nil), rest...)
				a[0] &^= 8
				if bytes.Equal(a, ref[:n]) || n < 4+len(m.Req.Topic) && a[0] == ref[0] {
					st := state[m.ID]
					if st == nil {
						st = &seen{}
						state[m.ID] = st
					}
					st.partial = true
				}
			}
		}
	}

	// exchange channels close in acceptance order
	var open [3]*Msg
	for _, m := range msgs {
		if m.AcceptedSeq == 0 || m.Inherited {
			continue // (an adopted transfer has no exchange channel in this process)
		}
		var done bool
		h.WithLock(func() { done = m.Call.ExchDone })
		if !done {
			if open[m.Req.QoS] == nil {
				open[m.Req.QoS] = m
			}
			continue
		}
		if o := open[m.Req.QoS]; o != nil {
			// the two observations were taken at different instants: look again
			h.PollExchanges()
			var still bool
			h.WithLock(func() { still = !o.Call.ExchDone })
			if !still {
				continue
			}
			h.Failf("exchange of %#04x (%q) is closed while the exchange of %#04x (%q), accepted earlier on the same level, is still open", m.ID, m.Req.Topic, o.ID, o.Req.Topic)
		}
	}
	return inflightAtReconnect
}

// C05 — publishes and resends keep acceptance order; DUP marks only re-deliveries.
func TestC05OrderDup(t *testing.T) {
	rapid.Check(t, func(rt *rapid.T) {
		cfg := baseConfig()
		cfg.AtLeastOnceMax = rapid.SampledFrom([]int{1, 2, 3, 5, 16, 64}).Draw(rt, "max1")
		cfg.ExactlyOnceMax = rapid.SampledFrom([]int{1, 2, 3, 5, 16, 64}).Draw(rt, "max2")
		// (a clean session asks the broker to start blank; what the client itself
		// accepted before its first connection is still its to deliver)
		cfg.CleanSession = rapid.IntRange(0, 2).Draw(rt, "cleanSession") == 0
		var h *H
		if rapid.IntRange(0, 3).Draw(rt, "startAtWrap") == 0 && cfg.AtLeastOnceMax > 1 && cfg.ExactlyOnceMax > 1 {
			h = newWrapH(rt, "C05", cfg, []byte{1, 2})
		} else {
			h = newH(rt, "C05", asVolatileSession(rt, sim.Options{Config: cfg}))
		}
		h.Act("config AtLeastOnceMax=%d ExactlyOnceMax=%d", cfg.AtLeastOnceMax, cfg.ExactlyOnceMax)
		var fc faultCounters
		nontrivial := false
		overlaps := 0
		defer func() { h.finish(nontrivial) }()

		if rapid.IntRange(0, 3).Draw(rt, "connectFirst") != 0 {
			h.Act("appStep")
			h.appStep("first connect")
		}

		actions := h.faultActions(rt, &fc)
		delete(actions, "loseTail")
		actions["pub1"] = func(rt *rapid.T) { h.pub(1, rapid.Bool().Draw(rt, "retain")) }
		actions["pub2"] = func(rt *rapid.T) { h.pub(2, rapid.Bool().Draw(rt, "retain")) }
		// traffic in the other direction shares the read routine's buffers
		actions["brokerSend"] = func(rt *rapid.T) {
			c := h.Current()
			if c == nil || !c.Accepted() || c.Blackholed() {
				rt.Skip("no accepted connection")
			}
			h.brokerSend(byte(rapid.IntRange(0, 2).Draw(rt, "inboundLevel")), rapid.IntRange(0, 40).Draw(rt, "inboundLen"))
		}
		// several goroutines publish at once
		actions["burst"] = func(rt *rapid.T) {
			n := rapid.IntRange(2, 6).Draw(rt, "n")
			var levels []byte
			for i := 0; i < n; i++ {
				levels = append(levels, byte(rapid.IntRange(1, 2).Draw(rt, "level")))
			}
			gate := rapid.SampledFrom([]string{"", "submit.locked", "submit.enqueued", "store-S", "write"}).Draw(rt, "gate")
			h.Act("burst levels=%v gate=%q", levels, gate)
			switch gate {
			case "submit.locked", "submit.enqueued":
				h.ArmGate(gate)
			case "store-S":
				h.Store.ParkNext('S')
			case "write":
				if c := h.Current(); c != nil {
					c.ArmWrite(sim.WFault{Off: c.OutLen() + rapid.IntRange(0, 8).Draw(rt, "off"), Kind: sim.WPark})
				}
			}
			var calls []*sim.Call
			for i, l := range levels {
				h.nTopic++
				topic := fmt.Sprintf("t%d", h.nTopic)
				payload := []byte{byte(i), l}
				req := &Req{Kind: fmt.Sprintf("pub%d", l), Topic: topic, Payload: payload, QoS: l, Quit: "nil"}
				level := l
				calls = append(calls, h.Go(req.Kind, req, func() (<-chan error, error) {
					if level == 1 {
						return h.Client.PublishAtLeastOnce(payload, topic)
					}
					return h.Client.PublishExactlyOnce(payload, topic)
				}))
			}
			h.PollQuiet(quiet, func() bool { return false })
			// open whatever the burst ran into
			for h.ReleaseGate("submit.locked") || h.ReleaseGate("submit.enqueued") || h.Store.Release() {
				h.PollQuiet(quiet, func() bool { return false })
			}
			h.DisarmGate("submit.locked")
			h.DisarmGate("submit.enqueued")
			for _, c := range h.AllConns() {
				for c.ReleaseWrite() {
					h.PollQuiet(quiet, func() bool { return false })
				}
			}
			h.Store.ClearParks()
			for _, c := range calls {
				h.SettleCall(c)
			}
			h.PollExchanges()
			overlaps++
		}
		actions[""] = func(rt *rapid.T) {
			noPanics(h)
			h.checkWire()
			msgs := h.messages()
			h.checkLifecycle(msgs)
			h.checkResend(msgs, true)
			h.checkOrderAndDup(msgs, true)
		}
		rt.Repeat(actions)

		// "… after a reconnect or restart all unacknowledged ones are
		// retransmitted in that same order before anything newly submitted":
		// half of the histories end in a stop and an adoption
		if rapid.Bool().Draw(rt, "restartAtEnd") && !h.PlainRecords { // (a session without the checksum layer cannot be adopted)
			h.Shutdown(5 * time.Second)
			k := rapid.IntRange(2, h.Store.NOps()).Draw(rt, "stopPoint")
			cfgNext := cfg
			cfgNext.CleanSession = false // (the process which adopts the session does not ask for a clean one)
			n, pend := h.restart(restartOpts{K: k, Late: rapid.Bool().Draw(rt, "late"), Config: cfgNext})
			n.checkAdoption(pend) // exactly the pending ones, original identifiers, original order, right stage
			n.checkContinuation(pend)
			if len(pend) >= 2 {
				n.label("restart-with->=2-pending")
				nontrivial = true
			}
			h = n
			h.drain(func() bool { return h.allPersistedDone() && h.outboundStoreEmpty() })
			noPanics(h)
			h.checkWire()
			msgs := h.messages()
			h.checkResend(msgs, true)
			h.checkOrderAndDup(msgs, false) // DUP after a restart: either (documented)
			nontrivial = nontrivial || overlaps > 0
			return
		}

		h.drain(h.allPersistedDone)
		noPanics(h)
		h.checkWire()
		msgs := h.messages()
		h.checkLifecycle(msgs)
		h.checkResend(msgs, true)
		multi := h.checkOrderAndDup(msgs, true)
		h.checkDelivered(msgs, h.Broker)
		if multi > 0 {
			h.label("two-or-more-retransmitted-on-one-connection")
		}
		if overlaps > 0 {
			h.label("concurrent-burst")
		}
		nontrivial = multi > 0 || overlaps > 0
	})
}

// C05 without PauseTimeout (the Config default): no write ever has a
// deadline. Persisted publishes without payload on a pipe-like connection
// (no writev: the empty second buffer is a Write of its own) which is lost
// right behind the packet's last byte, then the retransmission: a packet
// which was on the wire in full comes again with DUP, a first transmission
// never has it.
func TestC05NoPauseTimeout(t *testing.T) {
	rapid.Check(t, func(rt *rapid.T) {
		cfg := baseConfig()
		cfg.PauseTimeout = 0
		h := newH(rt, "C05", asVolatileSession(rt, sim.Options{Config: cfg}))
		h.WithLock(func() { h.PipeLike = rapid.IntRange(0, 3).Draw(rt, "pipeLike") != 0 })
		nontrivial := false
		defer func() { h.finish(nontrivial) }()
		h.Act("no PauseTimeout; pipe-like=%t", h.PipeLike)
		h.appStep("first connect")
		var fc faultCounters
		fa := h.faultActions(rt, &fc)
		cuts := 0
		actions := map[string]func(*rapid.T){
			"emptyPayloadCut":  func(rt *rapid.T) { fa["emptyPayloadCut"](rt); cuts++ },
			"emptyPayloadCut2": func(rt *rapid.T) { fa["emptyPayloadCut"](rt); cuts++ },
			"pub1":             func(rt *rapid.T) { h.pub(1, rapid.Bool().Draw(rt, "retain")) },
			"pub2":             func(rt *rapid.T) { h.pub(2, rapid.Bool().Draw(rt, "retain")) },
			"pubEmpty": func(rt *rapid.T) {
				h.forceEmpty = true
				h.pub(byte(rapid.IntRange(1, 2).Draw(rt, "level")), false)
				h.forceEmpty = false
			},
			"breakNow":    fa["breakNow"],
			"appStep":     fa["appStep"],
			"releaseAcks": fa["releaseAcks"],
			"": func(rt *rapid.T) {
				noPanics(h)
				h.checkWire()
				msgs := h.messages()
				h.checkLifecycle(msgs)
				h.checkResend(msgs, true)
				h.checkOrderAndDup(msgs, true)
			},
		}
		rt.Repeat(actions)
		h.drain(h.allPersistedDone)
		noPanics(h)
		h.checkWire()
		msgs := h.messages()
		h.checkLifecycle(msgs)
		h.checkResend(msgs, true)
		multi := h.checkOrderAndDup(msgs, true)
		h.checkDelivered(msgs, h.Broker)
		h.label("without-PauseTimeout")
		nontrivial = cuts > 0 || multi > 0
	})
}
