package props

import (
	"context"
	"errors"
	"fmt"
	"net"
	"strings"
	"sync"
	"testing"

	"github.com/pascaldekloe/mqtt"
	"pgregory.net/rapid"
	"verifh/refmqtt"
	"verifh/stats"
)

// C09 at the upper end of the packet size: a PUBLISH whose remaining length
// is up to 268,435,455 bytes is valid (never refused as IsDeny, whatever
// comes of it), one byte more is denied, for all six publish methods and
// several topic lengths. The client is offline, the quit channel fired and
// the persisted levels are without capacity, so that an accepted request ends
// before any of the 256 MiB is read, stored or sent.

var (
	maxPayloadOnce sync.Once
	maxPayload     []byte
)

func TestC09MaxSize(t *testing.T) {
	maxPayloadOnce.Do(func() { maxPayload = make([]byte, refmqtt.MaxRemaining+8) }) // untouched memory
	client, err := mqtt.VolatileSession("max-size", &mqtt.Config{
		Dialer: func(context.Context) (net.Conn, error) { return nil, errors.New("no connection") },
	})
	if err != nil {
		t.Fatalf("VERIF-INFRA: %v", err)
	}
	defer client.Close()
	quit := make(chan struct{})
	close(quit)
	rapid.Check(t, func(rt *rapid.T) {
		method := rapid.SampledFrom([]string{"Publish", "PublishRetained", "PublishAtLeastOnce", "PublishAtLeastOnceRetained", "PublishExactlyOnce", "PublishExactlyOnceRetained"}).Draw(rt, "method")
		topic := strings.Repeat("t", rapid.SampledFrom([]int{1, 2, 7, 100, 65535}).Draw(rt, "topicLen"))
		delta := rapid.IntRange(-7, 3).Draw(rt, "delta") // remaining length − 268,435,455
		head := 2 + len(topic)
		if method != "Publish" && method != "PublishRetained" {
			head += 2
		}
		remaining := refmqtt.MaxRemaining + delta
		payload := maxPayload[:remaining-head]
		var err error
		switch method {
		case "Publish":
			err = client.Publish(quit, payload, topic)
		case "PublishRetained":
			err = client.PublishRetained(quit, payload, topic)
		case "PublishAtLeastOnce":
			_, err = client.PublishAtLeastOnce(payload, topic)
		case "PublishAtLeastOnceRetained":
			_, err = client.PublishAtLeastOnceRetained(payload, topic)
		case "PublishExactlyOnce":
			_, err = client.PublishExactlyOnce(payload, topic)
		case "PublishExactlyOnceRetained":
			_, err = client.PublishExactlyOnceRetained(payload, topic)
		}
		desc := fmt.Sprintf("%s topic=%d bytes remaining length=max%+d", method, len(topic), delta)
		switch {
		case err == nil:
			violate(rt, "C09", "%s on a client without connection returned nil", desc)
		case delta > 0 && !mqtt.IsDeny(err):
			violate(rt, "C09", "%s exceeds the packet limit of 268,435,455 bytes and got %q, want an IsDeny error", desc, err)
		case delta <= 0 && mqtt.IsDeny(err):
			violate(rt, "C09", "%s is a valid request (remaining length %d), yet it was refused with the IsDeny error %q", desc, remaining, err)
		}
		stats.For("C09").Case(desc, true, "packet-size-limit")
	})
}
