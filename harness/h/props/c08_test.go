package props

import (
	"testing"
	"time"

	"pgregory.net/rapid"
	"verifh/refmqtt"
	"verifh/sim"
)

// C08 — a connection carries whole packets only, under short writes and
// concurrency; success only when the packet was written completely.
func TestC08WholePackets(t *testing.T) {
	rapid.Check(t, func(rt *rapid.T) {
		h := newH(rt, "C08", asVolatileSession(rt, sim.Options{Config: baseConfig()}))
		split, overlap := false, false
		defer func() { h.finish(split || overlap) }()

		// faults inside CONNECT itself, sometimes
		if rapid.IntRange(0, 9).Draw(rt, "connectFault") == 0 {
			d := rapid.IntRange(0, 26).Draw(rt, "connectCut")
			kind := rapid.SampledFrom([]int{sim.WTimeoutProgress, sim.WTimeout, sim.WReset}).Draw(rt, "connectKind")
			h.WithLock(func() {
				h.NextConnOpts = func(c *sim.Conn) {
					c.ArmWriteLocked(sim.WFault{Off: d, Kind: kind})
					h.NextConnOpts = nil
				}
			})
			h.Act("armWrite next-conn off=%d kind=%s", d, wfaultNames[kind])
		}
		h.appStep("first connect")

		final := false
		successCheck := func(c *sim.Call) {
			if !h.IsDone(c) {
				return
			}
			r := c.Meta.(*Req)
			ok := c.Err == nil
			if c.Exch != nil {
				// (a submission error arrives on the exchange channel
				// asynchronously; the persisted publishes are judged at the
				// end, when every accepted one must be on a wire completely)
				ok = ok && len(c.ExchErrs) == 0 && final
			}
			if !ok {
				return
			}
			switch r.Kind {
			case "pub0", "pub1", "pub2":
				if !h.wireHas(func(p *refmqtt.Packet) bool { return p.Type == refmqtt.PUBLISH && p.Topic == r.Topic }) {
					h.Failf("call %d %s to %q reported success, yet no connection carries its complete PUBLISH", c.N, r.Kind, r.Topic)
				}
			}
		}

		cut := func() int {
			// offsets relative to the next byte written: inside headers,
			// around the seam of header+payload, further in
			if rapid.IntRange(0, 3).Draw(rt, "cutFar") == 0 {
				return rapid.IntRange(0, 400).Draw(rt, "cut")
			}
			return rapid.IntRange(0, 24).Draw(rt, "cut")
		}

		rt.Repeat(map[string]func(*rapid.T){
			"pub0": func(rt *rapid.T) {
				c := h.pub(0, rapid.Bool().Draw(rt, "retain"))
				successCheck(c)
			},
			"pub1": func(rt *rapid.T) {
				c := h.pub(1, rapid.Bool().Draw(rt, "retain"))
				successCheck(c)
			},
			"pub2": func(rt *rapid.T) {
				c := h.pub(2, rapid.Bool().Draw(rt, "retain"))
				successCheck(c)
			},
			"sub": func(rt *rapid.T) {
				h.sub(byte(rapid.IntRange(0, 2).Draw(rt, "level")), rapid.IntRange(1, 4).Draw(rt, "n"))
			},
			"unsub": func(rt *rapid.T) { h.unsub(rapid.IntRange(1, 3).Draw(rt, "n")) },
			"ping":  func(rt *rapid.T) { h.ping() },
			// a PINGRESP nobody asked for (or one which overtakes a PINGREQ
			// that is still being written)
			"wanderingPingresp": func(rt *rapid.T) {
				c := h.Current()
				if c == nil || !c.Accepted() {
					rt.Skip("no accepted connection")
				}
				h.Act("broker sends PINGRESP")
				c.Send([]byte{0xd0, 0})
				h.settleInbound()
			},
			"armWrite": func(rt *rapid.T) {
				if h.Current() == nil {
					rt.Skip("no connection")
				}
				kind := rapid.SampledFrom([]int{sim.WTimeoutProgress, sim.WTimeoutProgress, sim.WTimeoutProgress, sim.WTimeout, sim.WReset}).Draw(rt, "kind")
				h.armWrite(cut(), kind)
				split = true
			},
			"armPark": func(rt *rapid.T) {
				c := h.Current()
				if c == nil || c.WritersParked() > 0 {
					rt.Skip("no connection or already parked")
				}
				d := cut()
				h.armWrite(d, sim.WPark)
				// … and once released, the Write may fail right there
				if rapid.IntRange(0, 2).Draw(rt, "thenFails") == 0 {
					h.armWrite(d, rapid.SampledFrom([]int{sim.WReset, sim.WTimeout}).Draw(rt, "failKind"))
				}
			},
			"releaseWrite": func(rt *rapid.T) {
				c := h.Current()
				if c == nil || c.WritersParked() == 0 {
					rt.Skip("nothing parked")
				}
				overlap = true
				h.Act("releaseWrite")
				c.ReleaseWrite()
				h.PollQuiet(quiet, func() bool { return false })
			},
			"releaseAcks": func(rt *rapid.T) {
				c := h.Current()
				if c == nil || len(c.Owed()) == 0 {
					rt.Skip("nothing owed")
				}
				h.releaseAcks(rapid.IntRange(1, 4).Draw(rt, "n"))
			},
			"brokerSend": func(rt *rapid.T) {
				c := h.Current()
				if c == nil || !c.Accepted() {
					rt.Skip("no accepted connection")
				}
				h.brokerSend(byte(rapid.IntRange(0, 2).Draw(rt, "qos")), rapid.IntRange(0, 40).Draw(rt, "len"))
			},
			"appStep": func(rt *rapid.T) {
				h.Act("appStep")
				h.appStep("appStep")
			},
			// The broker repeats an exactly-once PUBLISH which the client has
			// recorded already (its PUBREC got lost, say) while a requester is
			// part-way through a packet of its own: the PUBREC for the
			// duplicate must wait for that packet to be complete.
			"duplicateWhileWriting": func(rt *rapid.T) {
				c := h.Current()
				if c == nil || !c.Accepted() || c.Blackholed() || c.WritersParked() > 0 || !h.App.InCall() || !h.ReaderWaiting() {
					rt.Skip("needs an idle accepted connection with the read routine waiting for input")
				}
				m := h.brokerSend(2, rapid.IntRange(0, 10).Draw(rt, "len"))
				if m == nil {
					rt.Skip("no message")
				}
				h.appStep("the exactly-once message")
				h.appStep("PUBREC and marker")
				if h.Current() != c || !h.ReaderWaiting() || c.WritersParked() > 0 {
					return // something armed earlier struck meanwhile
				}
				d := rapid.IntRange(1, 8).Draw(rt, "parkAt")
				h.armWrite(d, sim.WPark)
				w := h.pub(0, false)
				if c.WritersParked() == 0 {
					return
				}
				var dup []byte
				h.WithLock(func() { dup = h.Broker.PublishBytes(m, c.N) })
				h.Act("the broker repeats %#04x while a Publish is %d bytes into its packet", m.ID, d)
				c.Send(dup)
				h.PollQuiet(2*time.Millisecond, func() bool { return false })
				h.Act("releaseWrite")
				for c.ReleaseWrite() {
				}
				h.SettleCall(w)
				h.settleInbound()
				overlap = true
				h.label("duplicate-exactly-once-publish-while-a-requester-writes")
			},
			// the connection is lost; on the next one a write gives up inside
			// the retransmission of the pending transfers, after which the
			// connection would take bytes again
			"resendFault": func(rt *rapid.T) {
				c := h.Current()
				if c == nil {
					rt.Skip("no connection")
				}
				d := rapid.IntRange(0, 90).Draw(rt, "off")
				kind := rapid.SampledFrom([]int{sim.WTimeout, sim.WTimeout, sim.WTimeoutProgress, sim.WReset}).Draw(rt, "kind")
				h.Act("break conn=%d; next-conn armWrite off=connect+%d kind=%s", c.N, d, wfaultNames[kind])
				h.WithLock(func() {
					h.NextConnOpts = func(c *sim.Conn) {
						c.ArmWriteLocked(sim.WFault{Off: connectLen + d, Kind: kind})
						h.NextConnOpts = nil
					}
				})
				c.Break(false)
				h.settleInbound()
				h.appStep("reconnect with a fault inside the resend")
				h.WithLock(func() { h.NextConnOpts = nil })
				split = true
				h.label("write-fault-inside-resend")
			},
			// a Publish with a quit channel waits for the connection to come
			// back and is cancelled meanwhile (its pooled header buffer goes
			// back; later publishes must not get to share one)
			"cancelledWhileWaiting": func(rt *rapid.T) {
				if c := h.Current(); c != nil {
					h.Act("break conn=%d", c.N)
					c.Break(false)
					h.settleInbound()
				}
				n := rapid.IntRange(1, 3).Draw(rt, "n")
				for i := 0; i < n; i++ {
					topic, payload := h.topic(), h.payload()
					quit := make(chan struct{})
					req := &Req{Kind: "pub0", Topic: topic, Payload: payload, QoS: 0, Quit: "later"}
					h.Act("pub0 with quit topic=%q len=%d, cancelled while it waits", topic, len(payload))
					call := h.Go("pub0", req, func() (<-chan error, error) { return nil, h.Client.Publish(quit, payload, topic) })
					h.SettleCall(call)
					close(quit)
					h.MustPoll("cancelled Publish returning", func() bool { return h.IsDone(call) })
				}
				h.appStep("reconnect")
				// … then several publishes at once
				var wg []*sim.Call
				for i := 0; i < rapid.IntRange(2, 4).Draw(rt, "burst"); i++ {
					topic, payload := h.topic(), h.payload()
					req := &Req{Kind: "pub0", Topic: topic, Payload: payload, QoS: 0, Quit: "nil"}
					h.Act("pub0 topic=%q len=%d (burst)", topic, len(payload))
					wg = append(wg, h.Go("pub0", req, func() (<-chan error, error) { return nil, h.Client.Publish(nil, payload, topic) }))
				}
				for _, c := range wg {
					h.SettleCall(c)
					successCheck(c)
				}
				overlap = true
			},
			"": func(rt *rapid.T) {
				noPanics(h)
				h.checkWire()
			},
		})

		// One ending in four: Disconnect (its quit fired already, or not)
		// while a writer sits inside a packet; nothing may be written into
		// that packet. The other endings drain.
		if c := h.Current(); c != nil && c.Accepted() && c.WritersParked() == 0 && rapid.IntRange(0, 3).Draw(rt, "disconnectAtEnd") == 0 {
			h.armWrite(cut(), sim.WPark)
			stuck := h.pub(byte(rapid.IntRange(0, 2).Draw(rt, "stuckLevel")), false)
			kind := rapid.SampledFrom([]string{"closed", "later", "nil"}).Draw(rt, "disconnectQuit")
			var quit chan struct{}
			if kind != "nil" {
				quit = make(chan struct{})
			}
			if kind == "closed" {
				close(quit)
			}
			h.Act("disconnect quit=%s while %d writers are parked", kind, c.WritersParked())
			dc := h.Go("disconnect", &Req{Kind: "disconnect", Quit: kind}, func() (<-chan error, error) { return nil, h.Client.Disconnect(quit) })
			h.PollQuiet(quiet, func() bool { return h.IsDone(dc) })
			if kind == "later" {
				close(quit)
				h.PollQuiet(quiet, func() bool { return h.IsDone(dc) })
			}
			// (faults armed earlier must not park the released writer again)
			h.WithLock(func() {
				for _, cc := range h.Conns {
					cc.ClearFaultsLocked()
				}
			})
			for _, cc := range h.AllConns() {
				for cc.ReleaseWrite() {
				}
			}
			h.MustPoll("Disconnect returning", func() bool { return h.IsDone(dc) })
			h.SettleCall(stuck)
			noPanics(h)
			h.checkWire()
			h.label("disconnect-while-a-writer-is-inside-a-packet")
			overlap = true
			return
		}
		pingCheck := func() {
			// success only if the packet was written completely: no more
			// successful Pings than complete PINGREQ packets on the wires
			ok, wire := 0, 0
			for _, c := range h.Calls {
				if r, isReq := c.Meta.(*Req); isReq && r.Kind == "ping" && h.IsDone(c) && c.Err == nil {
					ok++
				}
			}
			for _, cn := range h.AllConns() {
				ps, _, _ := refmqtt.DecodeAll(cn.OutCopy())
				for _, p := range ps {
					if p.Type == refmqtt.PINGREQ {
						wire++
					}
				}
			}
			if ok > wire {
				h.Failf("%d Ping calls reported success, yet only %d complete PINGREQ packets were written", ok, wire)
			}
		}
		defer pingCheck()
		h.drain(h.allPersistedDone)
		final = true
		h.PollExchanges()
		for _, c := range h.Calls {
			successCheck(c)
		}
		noPanics(h)
		h.checkWire()
	})
}
