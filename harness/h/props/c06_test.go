package props

import (
	"bytes"
	"fmt"
	"strings"
	"testing"

	"github.com/pascaldekloe/mqtt"
	"pgregory.net/rapid"
	"verifh/refmqtt"
	"verifh/sim"
)

// inPacket is one packet of a generated broker stream with what the client
// owes for it.
type inPacket struct {
	Desc    string
	Raw     []byte
	Publish *refmqtt.Packet // returned by ReadSlices (nil: control packet or suppressed duplicate)
	Reply   []byte          // acknowledgement the client must write
}

// streamGen builds well-formed broker streams relative to a read buffer size.
type streamGen struct {
	rt       *rapid.T
	buf      int
	n        int
	nextID   uint16
	inCycle  map[uint16]bool // QoS 2 identifiers between PUBLISH and PUBREL
	cycleP   map[uint16]*refmqtt.Packet
	dups     int
	boundary bool // a payload within ±2 of the buffer was generated
	big      int
}

func (g *streamGen) fill(n int, seed byte) []byte {
	b := make([]byte, n)
	for i := range b {
		b[i] = seed + byte(i*11) + byte(i>>8)
	}
	return b
}

func (g *streamGen) publish() inPacket {
	g.n++
	qos := byte(rapid.IntRange(0, 2).Draw(g.rt, "qos"))
	// topic: short mostly; bounded by the (shrunk) buffer so that topic and
	// identifier of a big message fit
	maxTopic := g.buf - 8
	if maxTopic > 65535 {
		maxTopic = 65535
	}
	tl := rapid.SampledFrom([]int{1, 2, 5, 30, 127, 128, maxTopic, -1, -1}).Draw(g.rt, "topicLen")
	if tl < 0 {
		hi := 300
		if hi > maxTopic {
			hi = maxTopic
		}
		tl = rapid.IntRange(1, hi).Draw(g.rt, "topicLenAny")
	}
	if tl > maxTopic {
		tl = maxTopic
	}
	prefix := fmt.Sprintf("i%d/", g.n)
	topic := prefix
	if tl > len(prefix) {
		topic += strings.Repeat("t", tl-len(prefix))
	}
	head := 2 + len(topic)
	if qos != 0 {
		head += 2
	}
	// payload size classes relative to the buffer
	var pl int
	classes := []string{"empty", "small", "small", "small", "edge", "edge", "fillsExactly", "big", "huge"}
	if g.buf > 8192 && rapid.IntRange(0, 399).Draw(g.rt, "lengthWidth4Allowed") == 0 {
		classes = []string{"width4"} // rare: 2 MiB per message
	}
	width4 := false
	switch rapid.SampledFrom(classes).Draw(g.rt, "sizeClass") {
	case "width4": // around the step from a three-byte to a four-byte remaining length
		pl = 2097152 - head + rapid.IntRange(-1, 1).Draw(g.rt, "edge")
		width4 = true
		g.boundary = true
	case "empty":
		pl = 0
	case "small":
		pl = rapid.IntRange(1, 40).Draw(g.rt, "payloadLen")
	case "edge": // remaining length within ±2 of the buffer
		pl = g.buf - head + rapid.IntRange(-2, 2).Draw(g.rt, "edge")
		g.boundary = true
	case "fillsExactly": // header fields end exactly at the buffer end, payload beyond
		pl = rapid.IntRange(1, g.buf).Draw(g.rt, "payloadLen")
		if pad := g.buf - head; pad > 0 && len(topic)+pad <= maxTopic {
			topic += strings.Repeat("f", pad)
			head += pad
		}
		g.boundary = true
	case "big":
		pl = g.buf + rapid.IntRange(1, g.buf).Draw(g.rt, "payloadLen")
	case "huge":
		pl = 2*g.buf + rapid.IntRange(0, g.buf).Draw(g.rt, "payloadLen")
	}
	if pl < 0 {
		pl = 0
	}
	if g.buf > 8192 && pl > 3*g.buf && !width4 {
		pl = 3 * g.buf
	}
	p := &refmqtt.Packet{Type: refmqtt.PUBLISH, QoS: qos, Topic: topic, Payload: g.fill(pl, byte(g.n)),
		Retain: rapid.IntRange(0, 5).Draw(g.rt, "retain") == 0}
	if qos != 0 {
		// identifiers: fresh, or reused after a completed cycle
		for {
			g.nextID++
			if g.nextID == 0 {
				g.nextID = 1
			}
			if !g.inCycle[g.nextID] {
				break
			}
		}
		p.ID = g.nextID
		if rapid.IntRange(0, 7).Draw(g.rt, "highID") == 0 {
			p.ID = uint16(rapid.IntRange(0x8000, 0xffff).Draw(g.rt, "id"))
			for g.inCycle[p.ID] || p.ID == 0 {
				p.ID++ // (wraps past 0xffff; zero is no identifier)
			}
		}
		if qos == 1 && rapid.IntRange(0, 7).Draw(g.rt, "dup") == 0 {
			p.Dup = true
		}
	}
	raw := refmqtt.Encode(p)
	p, _, _ = refmqtt.Decode(raw)
	ip := inPacket{Raw: raw, Publish: p}
	if head+pl > g.buf {
		g.big++
	}
	switch qos {
	case 1:
		ip.Reply = refmqtt.Ack(refmqtt.PUBACK, p.ID)
	case 2:
		ip.Reply = refmqtt.Ack(refmqtt.PUBREC, p.ID)
		g.inCycle[p.ID] = true
		if g.cycleP == nil {
			g.cycleP = map[uint16]*refmqtt.Packet{}
		}
		g.cycleP[p.ID] = p
	}
	ip.Desc = fmt.Sprintf("PUBLISH q%d id=%#04x topic=%d payload=%d (remaining %d, buffer %d)", qos, p.ID, len(topic), pl, head+pl, g.buf)
	return ip
}

func (g *streamGen) control() inPacket {
	switch k := rapid.SampledFrom([]string{"pingresp", "pubrel-open", "pubrel-open", "pubrel-unknown", "suback", "unsuback", "dup2", "dup2"}).Draw(g.rt, "control"); k {
	case "dup2":
		// retransmission of an exactly-once PUBLISH whose cycle is open: it
		// is suppressed, answered with PUBREC, and the stream stays aligned
		var id uint16
		for other := range g.inCycle {
			if id == 0 || other < id {
				id = other
			}
		}
		// prefer one beyond the read buffer, if any (smallest identifier)
		var bigID uint16
		for other := range g.inCycle {
			if len(g.cycleP[other].Raw) > g.buf+5 && (bigID == 0 || other < bigID) {
				bigID = other
			}
		}
		if bigID != 0 && rapid.Bool().Draw(g.rt, "preferBig") {
			id = bigID
		}
		if id == 0 {
			return inPacket{Desc: "PINGRESP", Raw: []byte{0xd0, 0}}
		}
		q := *g.cycleP[id]
		q.Dup = true
		g.dups++
		return inPacket{Desc: fmt.Sprintf("PUBLISH q2 id=%#04x retransmitted (DUP), payload=%d", id, len(q.Payload)), Raw: refmqtt.Encode(&q), Reply: refmqtt.Ack(refmqtt.PUBREC, id)}
	case "pingresp":
		return inPacket{Desc: "PINGRESP", Raw: []byte{0xd0, 0}}
	case "pubrel-open":
		for id := range g.inCycle {
			// deterministic pick: the smallest
			for other := range g.inCycle {
				if other < id {
					id = other
				}
			}
			delete(g.inCycle, id)
			return inPacket{Desc: fmt.Sprintf("PUBREL %#04x", id), Raw: refmqtt.Ack(refmqtt.PUBREL, id), Reply: refmqtt.Ack(refmqtt.PUBCOMP, id)}
		}
		fallthrough
	case "pubrel-unknown":
		id := uint16(rapid.IntRange(0x7000, 0x7fff).Draw(g.rt, "id"))
		return inPacket{Desc: fmt.Sprintf("PUBREL %#04x (unknown)", id), Raw: refmqtt.Ack(refmqtt.PUBREL, id), Reply: refmqtt.Ack(refmqtt.PUBCOMP, id)}
	case "suback":
		id := uint16(0x6000 | rapid.IntRange(0x1000, 0x1fff).Draw(g.rt, "id"))
		codes := []byte{byte(rapid.SampledFrom([]int{0, 1, 2, 0x80}).Draw(g.rt, "code"))}
		return inPacket{Desc: fmt.Sprintf("SUBACK %#04x (nobody waits)", id), Raw: refmqtt.Encode(&refmqtt.Packet{Type: refmqtt.SUBACK, ID: id, Codes: codes})}
	default:
		id := uint16(0x4000 | rapid.IntRange(0x1000, 0x1fff).Draw(g.rt, "id"))
		return inPacket{Desc: fmt.Sprintf("UNSUBACK %#04x (nobody waits)", id), Raw: refmqtt.Ack(refmqtt.UNSUBACK, id)}
	}
}

// cuts draws a fragmentation script for a stream of n bytes with packet
// boundaries and field offsets in marks.
func cuts(rt *rapid.T, n int, marks []int) (chunks []int, desc string) {
	switch mode := rapid.SampledFrom([]string{"whole", "bytewise", "random", "fields", "random"}).Draw(rt, "fragmentation"); mode {
	case "whole":
		return nil, "whole"
	case "bytewise":
		m := n
		if m > 3000 {
			m = 3000 // the rest in one piece
		}
		for i := 0; i < m; i++ {
			chunks = append(chunks, 1)
		}
		return chunks, "bytewise"
	case "fields":
		prev := 0
		for _, m := range marks {
			if m > prev && m < n {
				chunks = append(chunks, m-prev)
				prev = m
			}
		}
		return chunks, "at field boundaries"
	default:
		k := rapid.IntRange(1, 40).Draw(rt, "pieces")
		rest := n
		for i := 0; i < k && rest > 1; i++ {
			c := rapid.IntRange(1, rest).Draw(rt, "piece")
			if rapid.Bool().Draw(rt, "tiny") {
				c = rapid.IntRange(1, 5).Draw(rt, "piece")
				if c > rest {
					c = rest
				}
			}
			chunks = append(chunks, c)
			rest -= c
		}
		return chunks, fmt.Sprintf("%d random pieces", len(chunks))
	}
}

// C06 — inbound messages are returned byte-exact under any fragmentation and size.
func TestC06InboundExact(t *testing.T) {
	rapid.Check(t, func(rt *rapid.T) {
		bufSize := rapid.SampledFrom([]int{64, 64, 100, 128, 256, 1024, 4096, 128 * 1024}).Draw(rt, "readBuf")
		if !thorough && bufSize > 4096 && rapid.IntRange(0, 3).Draw(rt, "keepReal") != 0 {
			bufSize = 512
		}
		old := mqtt.VerifSetReadBufSize(bufSize)
		defer mqtt.VerifSetReadBufSize(old)

		g := &streamGen{rt: rt, buf: bufSize, inCycle: map[uint16]bool{}}
		n := rapid.IntRange(1, 12).Draw(rt, "packets")
		var stream []inPacket
		for i := 0; i < n; i++ {
			if rapid.IntRange(0, 3).Draw(rt, "isControl") == 0 {
				stream = append(stream, g.control())
			} else {
				stream = append(stream, g.publish())
			}
		}
		// the client must answer the last PUBLISH too: it does at the next call
		var all []byte
		var marks []int
		for _, ip := range stream {
			marks = append(marks, len(all), len(all)+1, len(all)+2)
			if ip.Publish != nil {
				hdr := len(ip.Raw) - len(ip.Publish.Payload)
				marks = append(marks, len(all)+hdr-2, len(all)+hdr, len(all)+hdr+1)
				if bufSize < len(ip.Raw) {
					marks = append(marks, len(all)+bufSize-1, len(all)+bufSize, len(all)+bufSize+1, len(all)+bufSize+2+ip.Publish.LenBytes)
				}
			}
			all = append(all, ip.Raw...)
		}
		coalesce := rapid.Bool().Draw(rt, "coalesceWithConnack")
		for i := range marks {
			marks[i] += 4 // the stream follows the 4-byte CONNACK
		}
		marks = append([]int{1, 2, 3, 4}, marks...)
		chunks, fragDesc := cuts(rt, len(all)+4, marks)
		// progress-making deadline expiries at drawn offsets (each fires only
		// when at least one byte arrived since the deadline was set)
		var expiries []int
		for i := 0; i < rapid.IntRange(0, 6).Draw(rt, "expiries"); i++ {
			expiries = append(expiries, rapid.IntRange(1, len(all)).Draw(rt, "expiryAt"))
		}
		readBig := map[int]bool{}

		h := newH(rt, "C06", sim.Options{Config: baseConfig()})
		split := len(chunks) > 0
		defer func() { h.finish(split || g.boundary || len(expiries) > 0) }()
		h.Act("readBuf=%d stream of %d packets (%d bytes), fragmentation %s, expiries at %v, coalesced with CONNACK %t", bufSize, len(stream), len(all), fragDesc, expiries, coalesce)
		for _, ip := range stream {
			h.Act("  %s", ip.Desc)
		}
		h.App.ReadBig = func(i int) bool {
			v, ok := readBig[i]
			if !ok {
				v = i%3 != 2 // deterministic policy: every third BigMessage is skipped
				readBig[i] = v
			}
			return v
		}
		// Sometimes an earlier connection came first: it delivered packets
		// with a body and then failed inside ReadSlices. Nothing of it may
		// leak into the reading of the next connection (C06 is judged on
		// that one: results and connections are counted from here).
		prelude := rapid.IntRange(0, 3).Draw(rt, "earlierConnectionFailed") == 0
		resBase, connBase := 0, 0
		if prelude {
			n := rapid.IntRange(1, 3).Draw(rt, "preludePackets")
			var pre []byte
			for i := 0; i < n; i++ {
				id := uint16(0x6100 + i)
				codes := make([]byte, rapid.IntRange(1, 40).Draw(rt, "preludeBody"))
				pre = append(pre, refmqtt.Encode(&refmqtt.Packet{Type: refmqtt.SUBACK, ID: id, Codes: codes})...)
			}
			kind := rapid.SampledFrom([]int{sim.REOF, sim.RReset}).Draw(rt, "preludeEnd")
			// … optionally inside one more packet
			tail := []byte{0x90, 0x20, 0x61, 0x10}[:rapid.IntRange(0, 4).Draw(rt, "preludeTail")]
			pre = append(pre, tail...)
			h.Act("an earlier connection delivers %d SUBACKs for nobody (%d bytes), then %s", n, len(pre), rfaultNames[kind])
			h.WithLock(func() {
				h.NextConnOpts = func(c *sim.Conn) {
					h.NextConnOpts = nil
					c.Connack.Extra = pre
					c.ArmReadLocked(sim.RFault{Off: 4 + len(pre), Kind: kind})
				}
			})
			h.App.Step()
			h.MustPoll("ReadSlices returning from the earlier connection", func() bool { return !h.App.InCall() })
			if last, ok := h.App.Last(); !ok || last.Err == nil || last.Big {
				h.Failf("the earlier connection ended with %s, yet ReadSlices returned %v", rfaultNames[kind], last)
			}
			resBase, connBase = h.App.NResults(), len(h.AllConns())
			h.label("after-an-earlier-connection-which-failed")
		}
		off := 4 // inbound offset of the stream (after CONNACK)
		h.WithLock(func() {
			h.NextConnOpts = func(c *sim.Conn) {
				h.NextConnOpts = nil
				if coalesce {
					c.Connack.Extra = all
				}
				c.FragmentLocked(chunks)
				for _, e := range expiries {
					c.ArmReadLocked(sim.RFault{Off: off + e, Kind: sim.RExpiryProgress})
				}
			}
		})
		h.App.Step()
		h.SettleReader("connect")
		c := h.Current()
		if c == nil || !c.Accepted() {
			h.Failf("after the connect the client holds no accepted connection: the handshake failed or the connection was given up while the stream was read")
		}
		if !coalesce {
			c.Send(all)
		}

		// read until the stream is consumed
		var want []inPacket
		for _, ip := range stream {
			if ip.Publish != nil {
				want = append(want, ip)
			}
		}
		for round := 0; ; round++ {
			if round > 4*len(stream)+20 {
				h.Failf("the stream is not consumed after %d ReadSlices rounds", round)
			}
			h.App.Step()
			h.MustPoll("ReadSlices returning or waiting for input", h.ReaderSettled)
			if h.App.InCall() {
				break // waits for input: everything was consumed
			}
		}
		// compare the returns with the PUBLISH packets sent
		var results []sim.AppResult
		for i := resBase; i < h.App.NResults(); i++ {
			results = append(results, h.App.Result(i))
		}
		if len(results) != len(want) {
			var l []string
			for _, r := range results {
				l = append(l, r.String())
			}
			h.Failf("ReadSlices returned %d times, the broker sent %d PUBLISH packets; returns: %v", len(results), len(want), l)
		}
		bigN := 0
		for i, r := range results {
			p := want[i].Publish
			if r.Panic != "" {
				h.Failf("panic in ReadSlices: %s", r.Panic)
			}
			remaining := len(want[i].Raw) - 1 - p.LenBytes
			if remaining > bufSize {
				// must come as a BigMessage
				if !r.Big {
					h.Failf("return %d: %s exceeds the %d-byte read buffer, yet ReadSlices returned %s", i, want[i].Desc, bufSize, r)
				}
				if r.BigTopic != p.Topic {
					h.Failf("return %d: BigMessage.Topic differs: got %d bytes %q…, want %d bytes", i, len(r.BigTopic), head([]byte(r.BigTopic), 20), len(p.Topic))
				}
				if r.BigSize != len(p.Payload) {
					h.Failf("return %d (%s): BigMessage.Size = %d, want %d", i, want[i].Desc, r.BigSize, len(p.Payload))
				}
				if r.BigRead {
					if r.BigErr != nil {
						h.Failf("return %d: BigMessage.ReadAll: %v", i, r.BigErr)
					}
					if !bytes.Equal(r.BigData, p.Payload) {
						h.Failf("return %d (%s): BigMessage.ReadAll content differs from the payload sent (first difference at %d)", i, want[i].Desc, firstDiff(r.BigData, p.Payload))
					}
				}
				bigN++
				continue
			}
			if r.Err != nil || r.Big {
				h.Failf("return %d: want %s, got %s", i, want[i].Desc, r)
			}
			if string(r.Topic) != p.Topic {
				h.Failf("return %d (%s): topic differs (got %d bytes)", i, want[i].Desc, len(r.Topic))
			}
			if !bytes.Equal(r.Msg, p.Payload) {
				h.Failf("return %d (%s): message differs from the payload sent (got %d bytes, first difference at %d)", i, want[i].Desc, len(r.Msg), firstDiff(r.Msg, p.Payload))
			}
		}
		// acknowledgements: exactly the owed ones, in stream order
		var wantOut []byte
		for _, ip := range stream {
			wantOut = append(wantOut, ip.Reply...)
		}
		out := c.OutCopy()
		ps, _, _ := refmqtt.DecodeAll(out)
		if len(ps) == 0 {
			h.Failf("nothing written")
		}
		gotOut := out[len(ps[0].Raw):]
		if !bytes.Equal(gotOut, wantOut) {
			h.Failf("acknowledgements differ: got % x, want % x", head(gotOut, 80), head(wantOut, 80))
		}
		if len(h.AllConns()) != connBase+1 {
			h.Failf("the client reconnected %d times on a well-formed stream", len(h.AllConns())-connBase-1)
		}
		noPanics(h)
		if bigN > 0 {
			h.label("big-message")
		}
		if g.boundary {
			h.label("payload-at-buffer-boundary")
		}
		if len(expiries) > 0 {
			h.label("progress-making-expiries-armed")
		}
		if coalesce {
			h.label("coalesced-with-connack")
		}
		if g.dups > 0 {
			h.label("suppressed-exactly-once-duplicate")
		}
	})
}

func firstDiff(a, b []byte) int {
	for i := 0; i < len(a) && i < len(b); i++ {
		if a[i] != b[i] {
			return i
		}
	}
	if len(a) != len(b) {
		if len(a) < len(b) {
			return len(a)
		}
		return len(b)
	}
	return -1
}
