package props

import (
	"testing"

	"github.com/pascaldekloe/mqtt"

	"pgregory.net/rapid"
	"verifh/sim"
)

// TestC17LimitBoundary: limits next to the size of the 14-bit identifier
// space, with as many transfers in flight as the limit allows (a deep backlog
// of an offline client, started at a drawn position of the sequence). Exactly
// the configured number is accepted, each under its own identifier; the next
// one gets ErrMax, and keeps getting it. The oracle is the arithmetic of the
// documentation (a limit outside 0..16383 means the whole space, 16384), the
// operation log of the recording Persistence (checkIdentifiers) and the call
// returns.
func TestC17LimitBoundary(t *testing.T) {
	rapid.Check(t, func(rt *rapid.T) {
		level := byte(rapid.IntRange(1, 2).Draw(rt, "level"))
		max := rapid.SampledFrom([]int{16383, 16383, 16382, 16384, 16385, 8191, 8193, -1}).Draw(rt, "max")
		other := rapid.SampledFrom([]int{0, 1, 16383}).Draw(rt, "maxOfTheOtherLevel")
		cfg := baseConfig()
		if level == 1 {
			cfg.AtLeastOnceMax, cfg.ExactlyOnceMax = max, other
		} else {
			cfg.AtLeastOnceMax, cfg.ExactlyOnceMax = other, max
		}
		limit := normMax(max)
		var h *H
		if rapid.Bool().Draw(rt, "startAtWrap") && other > 0 {
			h = newWrapH(rt, "C17", cfg, []byte{1, 2})
		} else {
			h = newH(rt, "C17", sim.Options{Config: cfg, StoreFlavour: "memory"})
		}
		defer func() { h.finish(true) }()
		h.Act("config AtLeastOnceMax=%d ExactlyOnceMax=%d; level %d is filled to its limit of %d while offline", cfg.AtLeastOnceMax, cfg.ExactlyOnceMax, level, limit)
		publish := h.Client.PublishAtLeastOnce
		if level == 2 {
			publish = h.Client.PublishExactlyOnce
		}
		before := h.inFlight(level)
		for i := before; i < limit; i++ {
			exchange, err := publish([]byte{byte(i), byte(i >> 8)}, "b")
			if err != nil {
				h.Failf("publish level %d with %d of %d transfers in flight returned %v, want acceptance", level, i, limit, err)
			}
			select {
			case err := <-exchange:
				if !isErr(err, mqtt.ErrDown) {
					h.Failf("publish level %d number %d while offline: exchange error %v, want ErrDown", level, i+1, err)
				}
			default:
				h.Failf("publish level %d number %d while offline: no exchange error", level, i+1)
			}
		}
		for i := 0; i < 3; i++ {
			if _, err := publish([]byte("!"), "b"); !isErr(err, mqtt.ErrMax) {
				h.Failf("publish level %d with %d of %d transfers in flight returned %v, want ErrMax", level, limit, limit, err)
			}
		}
		if n := h.inFlight(level); n != limit {
			h.Failf("the Persistence holds %d level-%d records, want %d", n, level, limit)
		}
		h.checkIdentifiers(&cfg)
		h.label("limit-next-to-the-identifier-space-reached")
		if max == 16383 {
			h.label("limit-16383")
		}
	})
}
