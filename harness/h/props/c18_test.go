package props

import (
	"bytes"
	"context"
	"fmt"
	"testing"
	"time"

	"github.com/pascaldekloe/mqtt"
	"pgregory.net/rapid"
	"verifh/refmqtt"
	"verifh/sim"
)

// connState replays the event log into the connect state the package
// documentation describes: pending (first attempt or reconnect outstanding),
// down (an attempt failed, no retry succeeded yet), online.
type connPhase struct {
	Seq   int
	State string // pending down online
}

func (h *H) connPhases() (phases []connPhase, established map[int]int) {
	established = map[int]int{} // conn → event at which the client got through connect
	state := "pending"
	attempt := false
	attemptConn := 0
	current := 0
	phases = append(phases, connPhase{0, state})
	set := func(seq int, s string) {
		if s != state {
			state = s
			phases = append(phases, connPhase{seq, s})
		}
	}
	accepted := map[int]bool{}
	for _, c := range h.AllConns() {
		h.WithLock(func() { accepted[c.N] = c.State.Accepted })
	}
	ops := h.Store.OpsCopy()
	for _, e := range h.Events() {
		switch e.Kind {
		case sim.EvStore:
			// an attempt which ends before the dial: the Persistence does
			// not produce the client identifier
			if e.Str == "L" && e.Err != nil && e.N < len(ops) && ops[e.N].Key == 0 && state != "online" {
				attempt, attemptConn = true, 0
			}
		case sim.EvDial:
			attempt, attemptConn = true, 0
		case sim.EvDialRet:
			attemptConn = e.Conn
		case sim.EvYield:
			if e.Str == "connect.release" && attempt && attemptConn != 0 {
				attempt = false
				current = attemptConn
				established[attemptConn] = e.Seq
				set(e.Seq, "online")
			}
		case sim.EvAppRet:
			r := h.App.Result(e.N)
			if attempt && r.Err == nil || attempt && r.Big {
				// returned a message: connect succeeded within this call
				attempt = false
				current = attemptConn
				if _, ok := established[attemptConn]; !ok {
					established[attemptConn] = e.Seq
				}
				set(e.Seq, "online")
			} else if attempt && r.Err != nil {
				attempt = false
				set(e.Seq, "down")
			}
		case sim.EvConnClose:
			if e.Conn == current && state == "online" {
				current = 0
				set(e.Seq, "pending")
			}
		}
	}
	return phases, established
}

func phaseAt(phases []connPhase, seq int) string {
	s := phases[0].State
	for _, p := range phases {
		if p.Seq <= seq {
			s = p.State
		}
	}
	return s
}

// checkConnect verifies the connection set-up clauses over the history so far.
func (h *H) checkConnect(cfg *mqtt.Config) {
	phases, established := h.connPhases()
	// "Established" for the clean-session rule: the client consumed an accepting
	// CONNACK (the broker's session exists from then on), whether or not the
	// resend which follows got through.
	_ = established
	everEstablished := -1
	{
		read := map[int]int{}
		accepting := map[int]bool{}
		first := map[int]bool{}
		for _, e := range h.Events() {
			switch e.Kind {
			case sim.EvBrokerSend:
				if !first[e.Conn] {
					first[e.Conn] = true
					accepting[e.Conn] = len(e.Data) >= 4 && e.Data[0] == 0x20 && e.Data[1] == 2 && e.Data[3] == 0 && e.Data[2] <= 1
				}
			case sim.EvRead:
				before := read[e.Conn]
				read[e.Conn] += len(e.Data)
				if before < 4 && read[e.Conn] >= 4 && accepting[e.Conn] && everEstablished < 0 {
					everEstablished = e.Seq
				}
			}
		}
	}
	infos := h.connInfos()
	for _, ci := range infos {
		if len(ci.Packets) == 0 {
			continue
		}
		p := ci.Packets[0]
		if p.Type != refmqtt.CONNECT {
			h.Failf("conn %d: first packet is %s", ci.N, p)
		}
		c := p.Connect
		wantClean := cfg.CleanSession && (everEstablished < 0 || ci.DialSeq < everEstablished)
		if c.CleanSession != wantClean {
			h.Failf("conn %d (dialed at event %d; first establishment at event %d): CONNECT clean session = %t, want %t with Config.CleanSession = %t",
				ci.N, ci.DialSeq, everEstablished, c.CleanSession, wantClean, cfg.CleanSession)
		}
		if why := connectMatches(c, cfg, clientID); why != "" {
			h.Failf("conn %d: CONNECT does not reflect the Config: %s", ci.N, why)
		}
		// nothing else before an accepting CONNACK was delivered
		if len(ci.Packets) > 1 {
			conn := h.Conn(ci.N)
			var acceptedAt = -1
			for _, e := range h.Events() {
				if e.Kind == sim.EvBrokerSend && e.Conn == ci.N && e.N == 0 && len(e.Data) >= 4 && e.Data[0] == 0x20 && e.Data[3] == 0 && e.Data[2] <= 1 {
					acceptedAt = e.Seq
					break
				}
			}
			second := h.packetStartSeq(conn, len(ci.Packets[0].Raw))
			if acceptedAt < 0 || second < acceptedAt {
				h.Failf("conn %d: %s was written (event %d) before an accepting CONNACK was delivered (event %d)", ci.N, ci.Packets[1], second, acceptedAt)
			}
		}
	}

	// requests versus the connect phases
	var calls []*sim.Call
	h.WithLock(func() { calls = append(calls, h.Calls...) })
	outcomeBetween := func(a, b int) bool {
		for _, p := range phases {
			if p.Seq > a && p.Seq < b {
				return true
			}
		}
		return false
	}
	for _, c := range calls {
		r, ok := c.Meta.(*Req)
		if !ok || r.Kind == "pub1" || r.Kind == "pub2" || r.Quit != "nil" {
			continue
		}
		var done bool
		var err error
		var start, end int
		h.WithLock(func() { done, err, start, end = c.Done, c.Err, c.StartSeq, c.EndSeq })
		if !done {
			continue
		}
		switch phaseAt(phases, start) {
		case "pending":
			if !outcomeBetween(start, end) && !isErr(err, mqtt.ErrMax) {
				h.Failf("call %d %s was issued at event %d while a connect attempt was outstanding and returned (%v) at event %d before the attempt had an outcome", c.N, c.Name, start, err, end)
			}
		case "down":
			if !outcomeBetween(start, end) && !isErr(err, mqtt.ErrDown, mqtt.ErrMax) {
				h.Failf("call %d %s was issued at event %d after a failed connect attempt and got %v, want ErrDown", c.N, c.Name, start, err)
			}
		}
	}
}

// packetStartSeq returns the event at which the outbound byte at offset off
// was accepted on the connection.
func (h *H) packetStartSeq(c *sim.Conn, off int) int {
	for _, e := range h.Events() {
		if e.Kind == sim.EvWrite && e.Conn == c.N && e.N <= off && off < e.N+len(e.Data) {
			return e.Seq
		}
	}
	return 1 << 30
}

func connectMatches(c *refmqtt.Connect, cfg *mqtt.Config, id string) string {
	switch {
	case c.ClientID != id:
		return fmt.Sprintf("client identifier %q, want %q", c.ClientID, id)
	case c.KeepAlive != cfg.KeepAlive:
		return fmt.Sprintf("keep-alive %d, want %d", c.KeepAlive, cfg.KeepAlive)
	case c.HasUser != (cfg.UserName != "" || cfg.Password != nil):
		return "user name flag"
	case c.User != cfg.UserName:
		return fmt.Sprintf("user name %q, want %q", c.User, cfg.UserName)
	case c.HasPass != (cfg.Password != nil):
		return "password flag"
	case !bytes.Equal(c.Pass, cfg.Password):
		return "password"
	case c.HasWill != (cfg.Will.Message != nil):
		return "will flag"
	}
	if c.HasWill {
		wantQoS := byte(0)
		if cfg.Will.ExactlyOnce {
			wantQoS = 2
		} else if cfg.Will.AtLeastOnce {
			wantQoS = 1
		}
		switch {
		case c.WillTopic != cfg.Will.Topic:
			return "will topic"
		case !bytes.Equal(c.WillMessage, cfg.Will.Message):
			return "will message"
		case c.WillRetain != cfg.Will.Retain:
			return "will retain"
		case c.WillQoS != wantQoS:
			return fmt.Sprintf("will level %d, want %d", c.WillQoS, wantQoS)
		}
	}
	return ""
}

// C18 — connection set-up.
func TestC18ConnectSetup(t *testing.T) {
	rapid.Check(t, func(rt *rapid.T) {
		cfg := baseConfig()
		cfg.CleanSession = rapid.Bool().Draw(rt, "clean")
		cfg.KeepAlive = uint16(rapid.SampledFrom([]int{0, 1, 60, 65535}).Draw(rt, "keepAlive"))
		if rapid.Bool().Draw(rt, "user") {
			cfg.UserName = rapid.SampledFrom([]string{"u", "user-é", "name with spaces"}).Draw(rt, "userName")
		}
		if rapid.Bool().Draw(rt, "pass") {
			cfg.Password = []byte(rapid.SampledFrom([]string{"", "secret", "\x00\xff"}).Draw(rt, "password"))
			if rapid.IntRange(0, 3).Draw(rt, "tokenPassword") == 0 {
				// a token: longer than one length byte can tell
				cfg.Password = bytes.Repeat([]byte("tok."), rapid.IntRange(64, 225).Draw(rt, "tokenQuads"))
			}
		}
		if rapid.Bool().Draw(rt, "will") {
			cfg.Will.Topic = "will/topic"
			cfg.Will.Message = []byte(rapid.SampledFrom([]string{"", "gone"}).Draw(rt, "willMsg"))
			cfg.Will.Retain = rapid.Bool().Draw(rt, "willRetain")
			cfg.Will.AtLeastOnce = rapid.Bool().Draw(rt, "will1")
			cfg.Will.ExactlyOnce = rapid.Bool().Draw(rt, "will2")
		}
		h := newH(rt, "C18", sim.Options{Config: cfg})
		h.Act("config clean=%t keepAlive=%d user=%q pass=%d bytes will=%t", cfg.CleanSession, cfg.KeepAlive, cfg.UserName, len(cfg.Password), cfg.Will.Message != nil)
		failedThenOK, duringAttempt := 0, 0
		failures := 0
		nontrivial := false
		defer func() { h.finish(nontrivial) }()
		lenConnect := -1

		// attempt runs one ReadSlices which (re)connects, under a scripted outcome
		attempt := func(rt *rapid.T) {
			if h.App.InCall() {
				rt.Skip("ReadSlices is running")
			}
			if c := h.Current(); c != nil && c.Accepted() {
				rt.Skip("online")
			}
			kind := rapid.SampledFrom([]string{"ok", "ok", "ok", "dial-error", "refuse", "raw", "eof", "write-fault", "read-fault", "hold", "resend-fault", "resend-fault", "identifier-load-fails"}).Draw(rt, "outcome")
			if kind == "resend-fault" && lenConnect < 0 {
				kind = "ok"
			}
			var o sim.DialOutcome
			slowConnect := false // the CONNECT write sees one expiry after progress, then completes
			wantRefused := false
			wantFail := true
			desc := kind
			switch kind {
			case "ok":
				wantFail = false
			case "dial-error":
				o.Kind = sim.DialErr
				// one in three: an error of the Dialer's own making which looks
				// like the client's context ending (it raced two addresses and
				// cancelled the loser, or ran into its own time limit); the
				// client is open: a failed attempt like any other
				if rapid.IntRange(0, 2).Draw(rt, "dialerContextError") == 0 {
					o.Err = rapid.SampledFrom([]error{
						context.Canceled,
						fmt.Errorf("dial backup address: %w", context.Canceled),
						context.DeadlineExceeded,
					}).Draw(rt, "dialerError")
					desc = fmt.Sprintf("dial-error %q", o.Err)
					h.label("dial-error-which-looks-like-a-context-end")
				}
			case "identifier-load-fails":
				// the Persistence cannot produce the client identifier right
				// now (no data, an error): the attempt fails; no CONNECT with
				// another identifier may go out
				h.Store.FailNext('L')
			case "refuse":
				code := byte(rapid.IntRange(1, 255).Draw(rt, "code"))
				flags := byte(rapid.SampledFrom([]int{0, 0, 1, 2, 0x80, 0xff}).Draw(rt, "flags"))
				o.Connack = &sim.ConnackPolicy{Kind: sim.ConnackRaw, Raw: []byte{0x20, 2, flags, code}}
				wantRefused = true
				desc = fmt.Sprintf("refuse code=%d flags=%#x", code, flags)
			case "raw":
				raw := rapid.SampledFrom([][]byte{
					{0x20, 2, 2, 0}, {0x20, 2, 0x80, 0}, {0x20, 2, 0xfe, 0}, // reserved flags
					{0x20, 2, 3, 0}, {0x20, 2, 0x81, 0}, {0x20, 2, 0xff, 0}, // reserved flags next to session-present
					{0x20, 3, 0, 0, 0}, {0x20, 1, 0}, {0x20, 0}, // wrong length
					{0x21, 2, 0, 0}, {0x30, 2, 0, 0}, {0x90, 2, 0, 0}, {0xd0, 0}, // wrong type or header flags
					{0x20}, {0x20, 2}, {0x20, 2, 0}, // truncated, then silence
				}).Draw(rt, "raw")
				o.Connack = &sim.ConnackPolicy{Kind: sim.ConnackRaw, Raw: raw}
				desc = fmt.Sprintf("raw %x", raw)
			case "eof":
				o.Connack = &sim.ConnackPolicy{Kind: sim.ConnackEOF}
			case "write-fault":
				off := rapid.IntRange(0, 30).Draw(rt, "off")
				wk := rapid.SampledFrom([]int{sim.WReset, sim.WTimeout}).Draw(rt, "wkind")
				h.WithLock(func() {
					h.NextConnOpts = func(c *sim.Conn) {
						c.ArmWriteLocked(sim.WFault{Off: off, Kind: wk})
						h.NextConnOpts = nil
					}
				})
				desc = fmt.Sprintf("write-fault off=%d kind=%s", off, wfaultNames[wk])
				// an expiry after progress is tolerated; offsets beyond
				// CONNECT hit a later packet, if any
				inside := off <= 16
				if lenConnect > 0 {
					inside = off < lenConnect
				}
				wantFail = inside && (wk == sim.WReset || off == 0)
				slowConnect = inside && lenConnect > 0 && wk == sim.WTimeout && off > 0
			case "read-fault":
				off := rapid.IntRange(0, 3).Draw(rt, "off")
				rk := rapid.SampledFrom([]int{sim.REOF, sim.RReset, sim.RExpiry}).Draw(rt, "rkind")
				h.WithLock(func() {
					h.NextConnOpts = func(c *sim.Conn) {
						c.ArmReadLocked(sim.RFault{Off: off, Kind: rk})
						h.NextConnOpts = nil
					}
				})
				desc = fmt.Sprintf("read-fault off=%d kind=%s", off, rfaultNames[rk])
			case "hold":
				o.Connack = &sim.ConnackPolicy{Kind: sim.ConnackHold}
				wantFail = false
			case "resend-fault":
				// dial and handshake succeed; the connection dies while the
				// pending transfers are retransmitted (if there are any)
				off := lenConnect + rapid.IntRange(0, 40).Draw(rt, "off")
				h.WithLock(func() {
					h.NextConnOpts = func(c *sim.Conn) {
						c.ArmWriteLocked(sim.WFault{Off: off, Kind: sim.WReset})
						h.NextConnOpts = nil
					}
				})
				desc = fmt.Sprintf("resend-fault off=connect+%d", off-lenConnect)
				wantFail = false // decided by the outcome below
			}
			phasesBefore, _ := h.connPhases()
			pre := phaseAt(phasesBefore, h.Seq())
			// (nothing armed by another action which could hold the attempt up)
			undisturbed := !h.WritersParkedAny() && len(h.ParkedGates()) == 0 && h.Store.Parked() == 0
			h.WithLock(func() { undisturbed = undisturbed && (h.NextConnOpts == nil || kind == "write-fault") })
			if kind != "identifier-load-fails" {
				h.ScriptDial(o) // (no dial without identifier)
			}
			h.Act("attempt %s", desc)
			before := h.App.NResults()
			nconns := len(h.AllConns())
			h.App.Step()
			h.SettleReader("connect attempt")
			if kind == "raw" || kind == "read-fault" {
				// a truncated CONNACK leaves the handshake waiting: PauseTimeout passes
				if h.App.InCall() && h.ExpireStalledRead() {
					h.SettleReader("handshake expiry")
				}
			}
			if kind == "hold" {
				// requests issued during the handshake must wait for the outcome
				duringAttempt++
				var calls []*sim.Call
				// … among them a persisted publish whose Save is still running
				// when the CONNACK arrives
				slowSave := rapid.IntRange(0, 2).Draw(rt, "saveRunsWhenConnackArrives") == 0 && h.Store.Parked() == 0
				if slowSave {
					h.Store.ParkNext('S')
					h.Act("the next Save is slow")
					calls = append(calls, h.pub(byte(rapid.IntRange(1, 2).Draw(rt, "slowLevel")), false))
					if h.Store.Parked() == 0 {
						h.Store.ClearParks()
						slowSave = false
					} else {
						h.label("save-running-when-connack-arrives")
					}
				}
				for i := 0; i < rapid.IntRange(1, 3).Draw(rt, "nreq"); i++ {
					switch rapid.IntRange(0, 3).Draw(rt, "req") {
					case 0:
						calls = append(calls, h.pub(0, false))
					case 1:
						calls = append(calls, h.sub(1, 1))
					case 2:
						calls = append(calls, h.ping())
					case 3:
						calls = append(calls, h.pub(1, false))
					}
				}
				for _, c := range calls {
					r := c.Meta.(*Req)
					if r.Kind == "pub1" || r.Kind == "pub2" {
						continue
					}
					switch pre {
					case "pending":
						if h.IsDone(c) && !isErr(c.Err, mqtt.ErrMax) {
							h.Failf("call %d %s returned (%v) while the CONNECT handshake of the outstanding attempt was in progress", c.N, c.Name, c.Err)
						}
					case "down":
						// a retry after a failed attempt: ErrDown until it succeeds
						h.MustPoll(fmt.Sprintf("call %d %s returning while down", c.N, c.Name), func() bool { return h.IsDone(c) })
						if !isErr(c.Err, mqtt.ErrDown, mqtt.ErrMax) {
							h.Failf("call %d %s issued during a retry after a failed attempt got %v, want ErrDown", c.N, c.Name, c.Err)
						}
					}
				}
				conn := h.Current()
				if conn == nil {
					h.Failf("no connection after a held handshake")
				}
				if accept := rapid.IntRange(0, 2).Draw(rt, "accept") != 0; accept {
					h.Act("release CONNACK accept")
					conn.ReleaseConnack(0)
				} else {
					code := byte(rapid.IntRange(1, 5).Draw(rt, "code"))
					h.Act("release CONNACK refuse code=%d", code)
					conn.ReleaseConnack(code)
					wantFail, wantRefused = true, true
				}
				if slowSave {
					h.PollQuiet(quiet, func() bool { return false })
					h.Act("the slow Save completes")
					h.Store.Release()
					h.Store.ClearParks()
				}
				h.SettleReader("handshake outcome")
				for _, c := range calls {
					h.SettleCall(c)
				}
				if wantFail {
					for _, c := range calls {
						r := c.Meta.(*Req)
						if r.Kind == "pub1" || r.Kind == "pub2" {
							continue
						}
						h.MustPoll(fmt.Sprintf("call %d %s returning after the failed attempt", c.N, c.Name), func() bool { return h.IsDone(c) })
						if !isErr(c.Err, mqtt.ErrDown, mqtt.ErrMax) {
							h.Failf("call %d %s waited for a connect attempt which failed and got %v, want ErrDown", c.N, c.Name, c.Err)
						}
					}
				}
			}
			if lenConnect < 0 {
				if cs := h.AllConns(); len(cs) != 0 {
					if ps, _, _ := refmqtt.DecodeAll(cs[0].OutCopy()); len(ps) != 0 {
						lenConnect = len(ps[0].Raw)
					}
				}
			}
			if kind == "resend-fault" {
				// the attempt failed iff ReadSlices returned an error from it
				if !h.App.InCall() && h.App.NResults() == before+1 {
					if r := h.App.Result(before); r.Err != nil && !r.Big {
						// … and connect did not get through on the new connection
						_, est := h.connPhases()
						cs := h.AllConns()
						if len(cs) > nconns {
							if _, ok := est[cs[len(cs)-1].N]; !ok {
								wantFail = true
							}
						}
					}
				}
			}
			if !wantFail {
				if cur := h.Current(); failures > 0 && cur != nil && cur.Accepted() {
					failedThenOK++
				}
				// a CONNECT which gets through (possibly slowly: an expiry
				// after progress is tolerated) and a prompt accepting CONNACK
				// establish the connection
				if (kind == "ok" || slowConnect) && undisturbed && !h.WritersParkedAny() && len(h.ParkedGates()) == 0 {
					if cur := h.Current(); cur == nil || !cur.Accepted() {
						last, _ := h.App.Last()
						h.Failf("attempt %s: the CONNECT got through and the broker accepted at once, yet no connection is established (last ReadSlices: %s)", desc, last)
					}
				}
				return
			}
			// the attempt must have failed: an error return, the connection closed
			h.MustPoll("ReadSlices returning from a failed connect attempt", func() bool { return !h.App.InCall() })
			if h.App.NResults() != before+1 {
				h.Failf("attempt %s: expected exactly one ReadSlices return", desc)
			}
			res := h.App.Result(before)
			if res.Err == nil || res.Big {
				h.Failf("attempt %s: ReadSlices returned %s, want an error", desc, res)
			}
			if got := mqtt.IsConnectionRefused(res.Err); got != wantRefused {
				h.Failf("attempt %s: IsConnectionRefused(%v) = %t, want %t", desc, res.Err, got, wantRefused)
			}
			if cs := h.AllConns(); len(cs) > nconns {
				if c := cs[len(cs)-1]; !c.Closed() {
					h.Failf("attempt %s failed (%v), yet connection %d was not closed", desc, res.Err, c.N)
				}
			}
			failures++
			// requests get ErrDown at once now
			probe := h.pub(0, false)
			h.MustPoll("Publish returning after a failed connect attempt", func() bool { return h.IsDone(probe) })
			if !isErr(probe.Err, mqtt.ErrDown) {
				h.Failf("after the failed attempt (%s) Publish got %v, want ErrDown", desc, probe.Err)
			}
		}

		// gatedResend parks connect between taking the write lock and the
		// resend, lets requests queue up for longer than lockWrite's 20 ms
		// poll, and releases: nothing may overtake the resend.
		gatedResend := func(rt *rapid.T) {
			if h.App.InCall() {
				rt.Skip("ReadSlices is running")
			}
			if c := h.Current(); c != nil && c.Accepted() {
				rt.Skip("online")
			}
			h.Act("attempt ok with connect parked before resend")
			h.ArmGate("connect.resend")
			h.App.Step()
			h.SettleReader("connect parked before resend")
			if h.GateParked("connect.resend") == 0 {
				h.DisarmGate("connect.resend")
				return // the attempt did not get that far (scripted failure pending)
			}
			var calls []*sim.Call
			for i := 0; i < rapid.IntRange(1, 3).Draw(rt, "nreq"); i++ {
				switch rapid.IntRange(0, 2).Draw(rt, "req") {
				case 0:
					calls = append(calls, h.pub(0, false))
				case 1:
					calls = append(calls, h.sub(1, 1))
				case 2:
					calls = append(calls, h.ping())
				}
			}
			time.Sleep(25 * time.Millisecond)
			h.ReleaseGate("connect.resend")
			h.SettleReader("connect after the gate")
			for _, c := range calls {
				h.SettleCall(c)
			}
			duringAttempt++
		}

		var fc faultCounters
		actions := map[string]func(*rapid.T){
			"gatedResend": gatedResend,
			"attempt":     attempt,
			"attempt2":    attempt,
			"pub0":        func(rt *rapid.T) { h.pub(0, false) },
			"pub1":        func(rt *rapid.T) { h.pub(1, false) },
			"pub2":        func(rt *rapid.T) { h.pub(2, false) },
			"sub":         func(rt *rapid.T) { h.sub(byte(rapid.IntRange(0, 2).Draw(rt, "level")), 1) },
			"ping":        func(rt *rapid.T) { h.ping() },
			"":            func(rt *rapid.T) { noPanics(h); h.checkWire(); h.checkConnect(&cfg) },
		}
		fa := h.faultActions(rt, &fc)
		for _, k := range []string{"releaseAcks", "breakNow", "appStep"} {
			actions[k] = fa[k]
		}
		rt.Repeat(actions)

		h.drain(h.allPersistedDone)
		noPanics(h)
		h.checkWire()
		h.checkConnect(&cfg)
		msgs := h.messages()
		h.checkResend(msgs, true)
		if failedThenOK > 0 {
			h.label("failed-attempt-then-success")
		}
		if duringAttempt > 0 {
			h.label("requests-during-handshake")
		}
		nontrivial = failedThenOK > 0 || duringAttempt > 0
	})
}
