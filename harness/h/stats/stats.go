// Package stats counts what the generated checks actually explored and writes
// partial statistics which the ./check driver merges into evidence/<id>.json.
package stats

import (
	"encoding/json"
	"fmt"
	"hash/fnv"
	"os"
	"path/filepath"
	"sort"
	"sync"
)

// Recorder collects the cases of one property within one process.
type Recorder struct {
	mu          sync.Mutex
	Prop        string            `json:"prop"`
	Evaluations int               `json:"evaluations"`
	Nontrivial  int               `json:"nontrivial"`
	Hashes      map[uint64]bool   `json:"-"`
	HashList    []uint64          `json:"hashes"`
	First       []string          `json:"first"`
	Reservoir   []string          `json:"reservoir"`
	Labels      map[string]int    `json:"labels"`
	Excluded    map[string]int    `json:"excluded"`
	Notes       map[string]string `json:"notes"`
	Known       []string          `json:"known"` // known findings which reproduced
	Gone        []string          `json:"gone"`  // known findings which did not reproduce
	Exhaustive  int               `json:"exhaustive_inner"`
	seen        int
}

var (
	mu   sync.Mutex
	recs = map[string]*Recorder{}
)

// For returns the recorder of a property.
func For(prop string) *Recorder {
	mu.Lock()
	defer mu.Unlock()
	r := recs[prop]
	if r == nil {
		r = &Recorder{Prop: prop, Hashes: map[uint64]bool{}, Labels: map[string]int{}, Excluded: map[string]int{}, Notes: map[string]string{}}
		recs[prop] = r
	}
	return r
}

const maxSampleLen = 6000

// Case records one executed case. Canonical is the rendering of the case
// (action lines); it is hashed for the distinct count and sampled verbatim.
func (r *Recorder) Case(canonical string, nontrivial bool, labels ...string) {
	r.mu.Lock()
	defer r.mu.Unlock()
	r.Evaluations++
	for _, l := range labels {
		r.Labels[l]++
	}
	if !nontrivial {
		return
	}
	r.Nontrivial++
	h := fnv.New64a()
	h.Write([]byte(canonical))
	sum := h.Sum64()
	if r.Hashes[sum] {
		return
	}
	r.Hashes[sum] = true
	if len(canonical) > maxSampleLen {
		canonical = canonical[:maxSampleLen] + "…(truncated)"
	}
	r.seen++
	if len(r.First) < 2 {
		r.First = append(r.First, canonical)
		return
	}
	// deterministic reservoir of 4, driven by the hash itself
	if len(r.Reservoir) < 4 {
		r.Reservoir = append(r.Reservoir, canonical)
	} else if j := int(sum % uint64(r.seen)); j < 4 {
		r.Reservoir[j] = canonical
	}
}

// Label counts an event without counting a case.
func (r *Recorder) Label(l string, n int) {
	r.mu.Lock()
	r.Labels[l] += n
	r.mu.Unlock()
}

// Exclude counts a case (or sub-case) that was excluded by construction
// because of a listed known finding.
func (r *Recorder) Exclude(finding string) {
	r.mu.Lock()
	r.Excluded[finding]++
	r.mu.Unlock()
}

// Note keeps a free text remark for the evidence file.
func (r *Recorder) Note(key, text string) {
	r.mu.Lock()
	r.Notes[key] = text
	r.mu.Unlock()
}

// KnownFinding reports the outcome of a dedicated probe for a listed finding.
func (r *Recorder) KnownFinding(id string, reproduced bool) {
	r.mu.Lock()
	if reproduced {
		r.Known = append(r.Known, id)
	} else {
		r.Gone = append(r.Gone, id)
	}
	r.mu.Unlock()
}

// InnerExhaustive counts enumerations which were complete per generated case.
func (r *Recorder) InnerExhaustive(n int) {
	r.mu.Lock()
	r.Exhaustive += n
	r.mu.Unlock()
}

// Flush writes all recorders to $VERIF_STATS_DIR. Call from TestMain.
func Flush() {
	dir := os.Getenv("VERIF_STATS_DIR")
	if dir == "" {
		return
	}
	mu.Lock()
	defer mu.Unlock()
	for _, r := range recs {
		r.mu.Lock()
		r.HashList = r.HashList[:0]
		for h := range r.Hashes {
			r.HashList = append(r.HashList, h)
		}
		sort.Slice(r.HashList, func(i, j int) bool { return r.HashList[i] < r.HashList[j] })
		data, err := json.Marshal(r)
		r.mu.Unlock()
		if err != nil {
			fmt.Fprintln(os.Stderr, "stats:", err)
			continue
		}
		name := filepath.Join(dir, fmt.Sprintf("%s-%d.json", r.Prop, os.Getpid()))
		if err := os.WriteFile(name, data, 0o644); err != nil {
			fmt.Fprintln(os.Stderr, "stats:", err)
		}
	}
}
